#!/venv/bin/python
"""Command interface of the PySpike deterministic-simulation checks.

  check.py setup
  check.py run <property> [--tier quick|thorough] [--runs N] [--jobs N] [--budget S]
  check.py replay <path>
  check.py digests <property> --tier T --indices i,j,k     (internal: determinism self-test)

Honours VERIF_SEED, VERIF_TIER and VERIF_REPO (tree under test, default /repo).
Exit 0: property held on everything explored; 1: violation (VIOLATION line); 2: harness error.
"""
import argparse
import os
import sys

if os.environ.get('PYTHONHASHSEED') is None:
    # one integer decides everything: fix str hashing too, in a fresh interpreter
    os.environ['PYTHONHASHSEED'] = '0'
    os.execv(sys.executable, [sys.executable] + sys.argv)

sys.path.insert(0, os.path.dirname(os.path.abspath(__file__)))
sys.dont_write_bytecode = True


def main():
    ap = argparse.ArgumentParser()
    sub = ap.add_subparsers(dest='cmd', required=True)
    sub.add_parser('setup')
    r = sub.add_parser('run')
    r.add_argument('prop')
    r.add_argument('--tier', default=os.environ.get('VERIF_TIER', 'quick'), choices=['quick', 'thorough'])
    r.add_argument('--runs', type=int)
    r.add_argument('--jobs', type=int)
    r.add_argument('--budget', type=float)
    p = sub.add_parser('replay')
    p.add_argument('path')
    sv = sub.add_parser('survey')
    sv.add_argument('prop')
    sv.add_argument('--tier', default='quick')
    sv.add_argument('--runs', type=int, default=4000)
    d = sub.add_parser('digests')
    d.add_argument('prop')
    d.add_argument('--tier', default='quick')
    d.add_argument('--indices', required=True)
    a = ap.parse_args()
    seed = int(os.environ.get('VERIF_SEED', '0') or 0)
    from simworld import runner
    from simworld.world import HarnessError
    try:
        if a.cmd == 'setup':
            w = runner.get_world()
            import numpy
            print("setup ok: python %s numpy %s pyspike from %s; lowered %d .pyx modules (%s)" % (
                sys.version.split()[0], numpy.__version__, w.repo, len(w.compiled), w.compiled_kind))
            for e in w.lower_errors:
                print(e)
            return 2 if w.lower_errors else 0
        if a.cmd == 'run':
            return runner.check(a.prop, a.tier, seed, jobs=a.jobs, runs=a.runs, budget=a.budget)
        if a.cmd == 'replay':
            rc, _ = runner.replay(a.path)
            return rc
        if a.cmd == 'survey':
            return runner.survey(a.prop, a.tier, seed, a.runs)
        if a.cmd == 'digests':
            return runner.digests(a.prop, a.tier, seed, [int(x) for x in a.indices.split(',') if x])
    except HarnessError as e:
        print(str(e))
        return 2
    return 2


if __name__ == '__main__':
    try:
        rc = main()
    except SystemExit:
        raise
    except BaseException as e:   # a crash of the harness is never "held" and never a VIOLATION
        import traceback
        traceback.print_exc()
        print("HARNESS-ERROR %r" % (e,))
        rc = 2
    sys.stdout.flush()
    os._exit(rc) if rc else sys.exit(0)
