"""Batch driver: seeded search over runs, shrinking, replay files, known findings,
determinism self-test, evidence.  Exit codes: 0 held, 1 violation, 2 harness error."""
import concurrent.futures
import faulthandler
import importlib
import json
import multiprocessing
import os
import signal
import subprocess
import sys
import time

from . import core
from . import reach
from .world import World, HarnessError

VERIF = os.path.dirname(os.path.dirname(os.path.abspath(__file__)))

MACHINES = {
    'C05': 'api', 'C07': 'api', 'C13': 'api', 'C14': 'api', 'C18': 'api',
    'C12': 'backend', 'C09': 'func', 'C11': 'func', 'C19': 'iom', 'C20': 'genm',
}
# a run that does not return within the bound is a violation where returning is
# part of the property, a harness error elsewhere
TIMEOUT_IS_VIOLATION = {'C18', 'C12', 'C19', 'C20'}
RUN_TIMEOUT_S = 60.0

TIERS = {
    # property: (quick runs, thorough runs); quick is sized for roughly 20 s on 16 cores
    'C05': (20000, 600000), 'C07': (60000, 1200000), 'C13': (24000, 500000),
    'C14': (20000, 500000), 'C18': (50000, 1000000), 'C12': (20000, 400000),
    'C09': (30000, 400000), 'C11': (40000, 500000), 'C19': (40000, 1000000), 'C20': (8000, 200000),
}
WALL_CAP = {'quick': 150.0, 'thorough': 3000.0}

_WORLD = None


def machine_for(prop):
    return importlib.import_module('simworld.machines.' + MACHINES[prop])


def get_world():
    global _WORLD
    if _WORLD is None:
        _WORLD = World()
    return _WORLD


def make_run(prop, verif_seed, idx, tier):
    m = machine_for(prop)
    rng = core.rng_for(verif_seed, prop, m.MACHINE, idx)
    rng.run_index, rng.verif_seed = idx, verif_seed     # for machines that enumerate over consecutive indices
    parts = m.generate(prop, rng, tier)
    run = {'property': prop, 'machine': m.MACHINE, 'seed': verif_seed, 'run_index': idx}
    run.update(parts)
    if hasattr(m, 'vary'):
        m.vary(run, rng)
    return run


class RunTimeout(BaseException):
    """not an Exception: the machines' own `except Exception` around library calls must not swallow it"""


def _alarm(signum, frame):
    raise RunTimeout()


def exec_run(world, run, prop=None):
    """pure function of (run, code): returns a result dict"""
    prop = prop or run['property']
    m = importlib.import_module('simworld.machines.' + MACHINES[prop])
    old = signal.signal(signal.SIGALRM, _alarm)
    # fires again every few seconds in case the first one lands inside a bare `except:` of the library
    signal.setitimer(signal.ITIMER_REAL, RUN_TIMEOUT_S, 5.0)
    crash = None
    try:
        world.reset_state()
        res = m.execute(world, run, prop)
        timeout = False
    except RunTimeout:
        res = None
        timeout = True
    except Exception as e:      # a crash of the harness (or an exception the machine did not classify)
        import traceback
        res, timeout = None, False
        crash = traceback.format_exc()[-1500:]
    finally:
        signal.setitimer(signal.ITIMER_REAL, 0)
        signal.signal(signal.SIGALRM, old)
        world.uninstall()
    if timeout:
        return {'violations': [{'property': prop, 'oracle': prop + '.did_not_return', 'step': -1,
                                'detail': {'why': 'run exceeded %.0f s wall for sub-millisecond work' % RUN_TIMEOUT_S},
                                'facts': {}}],
                'digest': 'timeout', 'compared': 0, 'fired': {}, 'probes': {}, 'timeout': True, 'nops': len(run['ops'])}
    if crash is not None:
        return {'violations': [], 'digest': 'crash', 'compared': 0, 'fired': {}, 'probes': {}, 'timeout': False,
                'nops': len(run['ops']), 'crash': crash}
    rec, fired = res
    return {'violations': rec.violations, 'digest': core.digest([rec.trace, [(v['oracle'], v['step']) for v in rec.violations]]),
            'compared': rec.compared, 'fired': fired, 'probes': rec.probes, 'timeout': False,
            'nops': len(run['ops'])}


# ----------------------------------------------------------------------
# known findings
# ----------------------------------------------------------------------
def load_findings():
    # VERIF_FINDINGS is for the self-test of the known-finding path only; registered commands never set it
    p = os.environ.get('VERIF_FINDINGS') or os.path.join(VERIF, 'known_findings.json')
    if not os.path.exists(p):
        return []
    with open(p) as f:
        return json.load(f)['findings']


def _match_cond(facts, cond):
    key, cmp_, val = cond
    if key not in facts:
        return False
    v = facts[key]
    if cmp_ == '==':
        return v == val
    if cmp_ == '!=':
        return v != val
    if cmp_ == '>=':
        return v >= val
    if cmp_ == '<=':
        return v <= val
    if cmp_ == 'in':
        return v in val
    raise ValueError(cmp_)


def match_finding(v, findings):
    for f in findings:
        if f.get('status') != 'known' or f['property'] != v['property']:
            continue
        mt = f['matcher']
        if mt['oracle'] != v['oracle']:
            continue
        if all(_match_cond(v['facts'], c) for c in mt.get('where', [])):
            return f
    return None


# ----------------------------------------------------------------------
# worker
# ----------------------------------------------------------------------
def _work(args):
    prop, verif_seed, tier, lo, hi, want_digests, deadline = args
    world = get_world()
    reach.start(world)
    findings = load_findings()
    m = machine_for(prop)
    out = {'runs': 0, 'ops': 0, 'compared': 0, 'fired': {}, 'probes': {}, 'sigs': set(),
           'violations': [], 'known': {}, 'digests': {}, 'samples': [], 'timeouts': 0, 'nviol': 0,
           'range': [lo, lo], 'crashes': [], 'opmix': {}, 'shapes': set()}
    for idx in range(lo, hi):
        if time.time() > deadline:
            break
        run = make_run(prop, verif_seed, idx, tier)
        res = exec_run(world, run)
        out['runs'] += 1
        out['range'][1] = idx + 1
        out['ops'] += res['nops']
        for o in run['ops']:
            k = o['op'] + (':' + str(o.get('fn') or o.get('m') or o.get('what') or '') if (o.get('fn') or o.get('m') or o.get('what')) else '')
            out['opmix'][k] = out['opmix'].get(k, 0) + 1
        out['compared'] += res['compared']
        for k, v in res['fired'].items():
            out['fired'][k] = out['fired'].get(k, 0) + v
        for k, v in res['probes'].items():
            out['probes'][k] = out['probes'].get(k, 0) + v
        if res['compared'] > 0 or any(res['fired'].get(k, 0) for k in getattr(m, 'FAULT_KINDS', ())):
            out['sigs'].add(m.signature(run))
            out['shapes'].add(m.shape(run) if hasattr(m, 'shape') else m.signature(run))
        if idx in want_digests:
            out['digests'][idx] = res['digest']
        if len(out['samples']) < 1 and idx == lo:
            out['samples'].append({'run_index': idx, 'swarm': run['swarm'], 'init': run.get('init'),
                                   'ops': run['ops'][:6], 'faults': run.get('faults'),
                                   'n_ops': len(run['ops']), 'trace_digest': res['digest']})
        if res['timeout']:
            out['timeouts'] += 1
        if res.get('crash'):
            out['crashes'].append((idx, res['crash']))
        for v in res['violations']:
            f = match_finding(v, findings)
            if f is not None:
                out['known'][f['id']] = out['known'].get(f['id'], 0) + 1
            else:
                out['nviol'] += 1
                if len(out['violations']) < 8:
                    out['violations'].append({'run_index': idx, 'violation': v})
    out['sigs'] = sorted(out['sigs'])
    out['shapes'] = sorted(out['shapes'])
    out['reach'] = reach.drain()
    return out


# ----------------------------------------------------------------------
# shrinking
# ----------------------------------------------------------------------
def _fails(world, run, oracle, findings):
    res = exec_run(world, run)
    for v in res['violations']:
        if v['oracle'] == oracle and match_finding(v, findings) is None:
            return v
    return None


def shrink(world, run, oracle, findings, budget=1200):
    m = machine_for(run['property'])
    cur = json.loads(json.dumps(run))
    v = _fails(world, cur, oracle, findings)
    if v is None:
        return cur, None
    spent = [0]

    def attempt(cand):
        spent[0] += 1
        try:
            return _fails(world, cand, oracle, findings)
        except Exception:
            return None
    # ddmin over ops
    n = 2
    while len(cur['ops']) >= 2 and spent[0] < budget:
        ops = cur['ops']
        size = max(1, len(ops) // n)
        reduced = False
        for start in range(0, len(ops), size):
            cand = dict(cur)
            cand['ops'] = ops[:start] + ops[start + size:]
            if not cand['ops']:
                continue
            vv = attempt(cand)
            if vv is not None:
                cur, v = json.loads(json.dumps(cand)), vv
                n = max(n - 1, 2)
                reduced = True
                break
        if not reduced:
            if size == 1:
                break
            n = min(n * 2, len(ops))
    # machine-specific simplifications to a fixpoint
    progress = True
    while progress and spent[0] < budget:
        progress = False
        for cand in m.simplify(cur):
            if spent[0] >= budget:
                break
            vv = attempt(cand)
            if vv is not None:
                cur, v = cand, vv
                progress = True
                break
    return cur, v


# ----------------------------------------------------------------------
# replay
# ----------------------------------------------------------------------
def write_replay(run, violation, res_digest):
    d = os.environ.get('VERIF_REPLAY_DIR') or os.path.join(VERIF, 'replays')
    os.makedirs(d, exist_ok=True)
    body = dict(run)
    body['violation'] = violation
    body['trace_digest'] = res_digest
    name = "%s-%s.json" % (run['property'], core.digest([run.get('init'), run['ops'], run.get('faults'), run['swarm']])[:12])
    path = os.path.join(d, name)
    with open(path, 'w') as f:
        json.dump(body, f, indent=1, sort_keys=True)
    return path


def replay(path, quiet=False):
    """re-executes a replay file; returns (exit code, message)"""
    with open(path) as f:
        run = json.load(f)
    world = get_world()
    findings = load_findings()
    res = exec_run(world, run)
    want = run.get('violation', {}).get('oracle')
    got = [v for v in res['violations'] if match_finding(v, findings) is None]
    same = [v for v in got if want is None or v['oracle'] == want]
    if same:
        if not quiet:
            print("REPLAY reproduces oracle=%s step=%d digest=%s" % (same[0]['oracle'], same[0]['step'], res['digest']))
            print(json.dumps(same[0]['detail'], sort_keys=True)[:2000])
            print("VIOLATION property=%s replay=%s" % (run['property'], path))
        return 1, same[0]
    if not quiet:
        print("REPLAY clean: no violation (wanted %s); digest=%s" % (want, res['digest']))
    return 0, None


def replay_in_fresh_interpreter(path):
    env = dict(os.environ)
    env['PYTHONHASHSEED'] = '4242'
    p = subprocess.run([sys.executable, os.path.join(VERIF, 'check.py'), 'replay', path],
                       capture_output=True, text=True, env=env, timeout=300)
    return p.returncode, p.stdout + p.stderr


# ----------------------------------------------------------------------
# the check
# ----------------------------------------------------------------------
def run_corpus(world, prop):
    """fixed findings and earlier counterexamples are replayed first"""
    d = os.path.join(VERIF, 'corpus')
    out = []
    if not os.path.isdir(d):
        return out
    findings = load_findings()
    for name in sorted(os.listdir(d)):
        if not name.startswith(prop + '-') or not name.endswith('.json'):
            continue
        path = os.path.join(d, name)
        with open(path) as f:
            run = json.load(f)
        res = exec_run(world, run)
        bad = [v for v in res['violations'] if match_finding(v, findings) is None]
        known = [match_finding(v, findings)['id'] for v in res['violations'] if match_finding(v, findings) is not None]
        out.append((path, bad, known))
    return out


def check(prop, tier, verif_seed, jobs=None, runs=None, budget=None):
    t_start = time.time()
    faulthandler.enable()
    jobs = jobs or min(16, os.cpu_count() or 1)
    nruns = runs or TIERS[prop][0 if tier == 'quick' else 1]
    wall_cap = budget or WALL_CAP[tier]
    faulthandler.dump_traceback_later(wall_cap * 2 + 600, exit=True)
    try:
        world = get_world()
    except HarnessError as e:
        print(str(e))
        return 2
    m = machine_for(prop)
    findings = load_findings()
    violations_out = []   # (path, violation)

    # 1. corpus
    corpus = run_corpus(world, prop)
    corpus_known = {}
    for path, bad, known in corpus:
        if bad:
            violations_out.append((path, bad[0]))
        for k in known:
            corpus_known[k] = corpus_known.get(k, 0) + 1

    # 2. batch
    ndig = 32 if tier == 'quick' else 256
    step = max(1, nruns // ndig)
    want_digests = set(range(0, nruns, step))
    dump = os.environ.get('VERIF_DUMP_DIGESTS')
    if dump:
        want_digests = set(range(nruns))
    chunk = max(20, nruns // (jobs * 8))
    deadline = t_start + wall_cap
    tasks = [(prop, verif_seed, tier, lo, min(nruns, lo + chunk), want_digests, deadline)
             for lo in range(0, nruns, chunk)]
    agg = {'runs': 0, 'ops': 0, 'compared': 0, 'fired': {}, 'probes': {}, 'sigs': set(), 'violations': [],
           'known': {}, 'digests': {}, 'samples': [], 'timeouts': 0, 'nviol': 0, 'max_index': 0,
           'reach': set(), 'crashes': [], 'opmix': {}, 'shapes': set()}
    ctx = multiprocessing.get_context('fork')
    try:
        with concurrent.futures.ProcessPoolExecutor(max_workers=jobs, mp_context=ctx) as ex:
            for out in ex.map(_work, tasks):
                agg['runs'] += out['runs']
                agg['ops'] += out['ops']
                agg['compared'] += out['compared']
                agg['timeouts'] += out['timeouts']
                agg['nviol'] += out['nviol']
                agg['max_index'] = max(agg['max_index'], out['range'][1])
                for k, v in out['fired'].items():
                    agg['fired'][k] = agg['fired'].get(k, 0) + v
                for k, v in out['probes'].items():
                    agg['probes'][k] = agg['probes'].get(k, 0) + v
                for k, v in out['known'].items():
                    agg['known'][k] = agg['known'].get(k, 0) + v
                agg['sigs'].update(out['sigs'])
                agg['shapes'].update(out['shapes'])
                agg['reach'].update(tuple(h) for h in out.get('reach', ()))
                agg['digests'].update(out['digests'])
                if len(agg['samples']) < 3:
                    agg['samples'].extend(out['samples'])
                agg['violations'].extend(out['violations'])
                agg['crashes'].extend(out['crashes'][:2])
                for k, v in out['opmix'].items():
                    agg['opmix'][k] = agg['opmix'].get(k, 0) + v
    except concurrent.futures.process.BrokenProcessPool as e:
        print("HARNESS-ERROR worker died: %r" % e)
        return 2
    t_batch = time.time() - t_start

    # 3. violations -> shrink, replay file, fresh-interpreter confirmation
    harness_err = None
    seen = set()
    for item in agg['violations']:
        v = item['violation']
        if v['oracle'] in seen or len(seen) >= 3:
            continue
        seen.add(v['oracle'])
        if v['oracle'].endswith('.did_not_return') and prop not in TIMEOUT_IS_VIOLATION:
            harness_err = "HARNESS-ERROR run %d did not return within %.0f s (see C18 for liveness)" % (item['run_index'], RUN_TIMEOUT_S)
            continue
        run = make_run(prop, verif_seed, item['run_index'], tier)
        if v['oracle'].endswith('.did_not_return'):
            small, vv = run, v
        else:
            small, vv = shrink(world, run, v['oracle'], findings)
            if vv is None:
                harness_err = "HARNESS-ERROR violation %s of run %d did not reproduce in-process" % (v['oracle'], item['run_index'])
                continue
        res = exec_run(world, small)
        path = write_replay(small, vv, res['digest'])
        rc, outp = replay_in_fresh_interpreter(path)
        if rc == 1:
            violations_out.append((path, vv))
        else:
            harness_err = "HARNESS-ERROR replay %s did not reproduce in a fresh interpreter (rc=%d)\n%s" % (path, rc, outp[-800:])

    if world.lower_errors:
        harness_err = "\n".join(world.lower_errors) + "\n(the compiled half of the configuration space did not run; " \
                      "'held' cannot be said for it)"
    if agg['crashes']:
        harness_err = "HARNESS-ERROR %d run(s) raised inside the harness, e.g. run %d:\n%s" % (
            len(agg['crashes']), agg['crashes'][0][0], agg['crashes'][0][1])

    # 4. determinism self-test on a sample, fresh interpreter, other hash seed, one process
    det_ok, det_n = True, 0
    if dump:
        with open(dump, 'w') as f:
            json.dump({str(k): v for k, v in sorted(agg['digests'].items())}, f)
    if agg['digests']:
        idxs = sorted(agg['digests'])[::max(1, len(agg['digests']) // ndig)] if dump else sorted(agg['digests'])
        # runs that did not return are not re-executed (each would cost the full time bound again)
        idxs = [i for i in idxs if agg['digests'][i] not in ('timeout', 'crash')]
        env = dict(os.environ)
        env['PYTHONHASHSEED'] = '97'
        env['VERIF_SEED'] = str(verif_seed)
        p = subprocess.run([sys.executable, os.path.join(VERIF, 'check.py'), 'digests', prop, '--tier', tier,
                            '--indices', ','.join(map(str, idxs))],
                           capture_output=True, text=True, env=env, timeout=1200)
        try:
            again = json.loads(p.stdout.strip().splitlines()[-1])
        except Exception:
            again = None
        if again is None:
            harness_err = "HARNESS-ERROR determinism self-test failed to run: %s" % (p.stdout + p.stderr)[-500:]
        else:
            for i in idxs:
                det_n += 1
                if again.get(str(i)) != agg['digests'][i]:
                    det_ok = False
                    harness_err = "HARNESS-ERROR run %d is not deterministic: %s vs %s" % (i, agg['digests'][i], again.get(str(i)))
                    break

    # 5. fault kinds must have fired
    for kind in getattr(m, 'required_fired', lambda p: ())(prop):
        if agg['fired'].get(kind, 0) == 0 and agg['runs'] >= 200:
            harness_err = "HARNESS-ERROR fault kind %r never fired in %d runs" % (kind, agg['runs'])

    wall = time.time() - t_start
    # 6. evidence
    known_lines = []
    for f in findings:
        if f['property'] == prop and f.get('status') == 'known':
            n = agg['known'].get(f['id'], 0) + corpus_known.get(f['id'], 0)
            known_lines.append("KNOWN-FINDING: property=%s %s (id=%s, matched %d times in this run)" % (prop, f['what'], f['id'], n))
    evidence = {
        'property_id': prop, 'tier': tier, 'seed': verif_seed, 'level': 'exploration',
        'coverage': {
            'evaluations': agg['runs'],
            'distinct_nontrivial': len(agg['shapes']),
            'distinct_run_signatures': len(agg['sigs']),
            'rule': (m.RULE.get(prop, m.RULE.get('*')) if isinstance(getattr(m, 'RULE', None), dict) else getattr(m, 'RULE', ''))
            + " distinct_nontrivial counts the coarse classes of non-trivial runs: fault/backend configuration x input "
              "shape (number of trains, of empty and of one-spike trains, ties, edge spikes) x SET of operation kinds and "
              "measure families; distinct_run_signatures counts the fine signature described above.",
            'samples': agg['samples'][:3],
            'operations_executed': agg['ops'],
            'oracle_comparisons': agg['compared'],
            'run_index_range': [0, agg['max_index']],
            'runs_per_hour': int(agg['runs'] / max(t_batch, 1e-6) * 3600),
            'seeds': 'VERIF_SEED=%d, run seeds sha256("%d:%s:%s:<i>")[:16] for i in [0,%d)' % (verif_seed, verif_seed, prop, m.MACHINE, agg['max_index']),
            'simulated_time_covered': "0 s: PySpike has no clock, timer, sleep or deadline; progress is counted in operations",
            'faults_fired': dict(sorted(agg['fired'].items())),
            'operation_mix': dict(sorted(agg['opmix'].items())),
            'reach_probes': dict(sorted(agg['probes'].items())),
            'line_reach': reach.summarize(world, agg['reach'], getattr(m, 'REACH_FILES', {}).get(prop)),
            'known_findings_matched': agg['known'],
            'corpus_replayed': [os.path.basename(c[0]) for c in corpus],
            'known_findings_matched_in_corpus': corpus_known,
            'determinism_selftest': {'runs_reexecuted_in_fresh_interpreter': det_n, 'identical': det_ok},
            'components': world.components(),
            'workers': jobs, 'run_timeouts': agg['timeouts'],
            'exhaustive': False,
        },
        'assumptions': list(getattr(m, 'ASSUMPTIONS', [])) + [
            "compiled kernels are represented by the .pyx sources lowered to Python (simworld/lower.py); "
            "nothing is claimed about the C compiler's output",
            "sampling, not proof: the property held on the runs explored only"],
        'wall_s': round(wall, 2),
        'violations': len(violations_out),
    }
    # self-tests that aim the checks at scratch trees redirect their evidence away from /verif/evidence
    ev_dir = os.environ.get('VERIF_EVIDENCE_DIR') or os.path.join(VERIF, 'evidence')
    os.makedirs(ev_dir, exist_ok=True)
    with open(os.path.join(ev_dir, prop + '.json'), 'w') as f:
        json.dump(evidence, f, indent=1, sort_keys=True)

    for line in known_lines:
        print(line)
    print("%s tier=%s seed=%d runs=%d ops=%d comparisons=%d distinct=%d faults=%s wall=%.1fs" % (
        prop, tier, verif_seed, agg['runs'], agg['ops'], agg['compared'], len(agg['sigs']),
        json.dumps(agg['fired'], sort_keys=True), wall))
    if violations_out:
        for path, v in violations_out:
            print("violation oracle=%s detail=%s" % (v['oracle'], json.dumps(v['detail'], sort_keys=True)[:1500]))
            print("VIOLATION property=%s replay=%s" % (prop, path))
        return 1
    if harness_err:
        print(harness_err)
        return 2
    if agg['runs'] == 0:
        print("HARNESS-ERROR no run executed")
        return 2
    return 0


def digests(prop, tier, verif_seed, indices):
    world = get_world()
    out = {}
    for i in indices:
        run = make_run(prop, verif_seed, i, tier)
        out[str(i)] = exec_run(world, run)['digest']
    print(json.dumps(out))
    return 0


def survey(prop, tier, verif_seed, nruns, jobs=16):
    """development aid: violation classes with counts, no shrinking"""
    world = get_world()
    ctx = multiprocessing.get_context('fork')
    chunk = max(10, nruns // (jobs * 4))
    tasks = [(prop, verif_seed, tier, lo, min(nruns, lo + chunk)) for lo in range(0, nruns, chunk)]
    classes = {}
    with concurrent.futures.ProcessPoolExecutor(max_workers=jobs, mp_context=ctx) as ex:
        for out in ex.map(_survey_work, tasks):
            for k, (n, ex_) in out.items():
                if k in classes:
                    classes[k][0] += n
                else:
                    classes[k] = [n, ex_]
    for k in sorted(classes, key=lambda k: -classes[k][0]):
        print(classes[k][0], k)
        print("     e.g.", json.dumps(classes[k][1], sort_keys=True)[:700])
    return 0


def _survey_work(args):
    prop, verif_seed, tier, lo, hi = args
    world = get_world()
    findings = load_findings()
    out = {}
    for idx in range(lo, hi):
        run = make_run(prop, verif_seed, idx, tier)
        res = exec_run(world, run)
        for v in res['violations']:
            if match_finding(v, findings) is not None:
                continue
            f = v['facts']
            key = "%s fn=%s cfg=%s form=%s/%s n_empty=%s" % (v['oracle'], f.get('fn'), f.get('config'), f.get('form'), f.get('form_b'), f.get('n_empty'))
            if key not in out:
                out[key] = [0, {'run_index': idx, 'detail': v['detail']}]
            out[key][0] += 1
    return out
