"""`api` machine (DESIGN.md 4.2): a pool of caller-owned SpikeTrain objects that
lives for the whole run, public calls in every call form, one static backend
configuration per run (all extension imports succeed / all fail).  Serves
C05, C07, C13, C14, C18; each check evaluates only its own oracles."""
import numpy as np

from ..core import Recorder, norm, same_norm, close, all_finite, digest
from ..world import BackendPlan, ALL_COMPILED, captured_stdout
from .. import gen, models

MACHINE = 'api'
FAULT_KINDS = ('import_fail', 'import_ok')
ASSUMPTIONS = [
    "one static backend configuration per run, exactly the two the properties name (all extension "
    "imports succeed -> lowered .pyx stand-in; all fail -> pure-Python fallback); partial builds are C12's business",
    "beyond reaching both configurations and keeping caller objects alive across a history, the choice "
    "of spike trains and keyword values is seeded sampling",
    "real-valued results compared with |x-y| <= 1e-9*max(1,|x|,|y|); breakpoints, multiplicities and lengths exactly",
]
RULE = {'*': "runs are generated from sha256-derived per-run seeds: a pool of 2-6 valid spike trains on a common "
             "interval (grid mode: ties, edge spikes; float mode), one static backend configuration decided by the "
             "fault plan at the import seam, and 6-30 public calls / composite comparisons on the same caller-owned "
             "pool. A run is non-trivial if at least one oracle compared a result that came back without exception; "
             "distinct = distinct signature (backend configuration, sorted spike counts, tie flag, edge-spike flag, "
             "multiset of (operation, function, call form))."}


def required_fired(prop):
    return ('import_fail', 'import_ok')

# name -> (family, kind, forms, accepts interval)
FUNCS = {
    'isi_profile': ('isi', 'pwc', ('pair', 'list', 'star', 'idx'), False),
    'isi_profile_multi': ('isi', 'pwc', ('list', 'idx'), False),
    'isi_distance': ('isi', 'scalar', ('pair', 'list', 'star', 'idx'), True),
    'isi_distance_multi': ('isi', 'scalar', ('list', 'idx'), True),
    'isi_distance_matrix': ('isi', 'matrix', ('list', 'idx'), True),
    'spike_profile': ('spike', 'pwl', ('pair', 'list', 'star', 'idx'), False),
    'spike_profile_multi': ('spike', 'pwl', ('list', 'idx'), False),
    'spike_distance': ('spike', 'scalar', ('pair', 'list', 'star', 'idx'), True),
    'spike_distance_multi': ('spike', 'scalar', ('list', 'idx'), True),
    'spike_distance_matrix': ('spike', 'matrix', ('list', 'idx'), True),
    'spike_sync_profile': ('sync', 'disc', ('pair', 'list', 'star', 'idx'), False),
    'spike_sync_profile_multi': ('sync', 'disc', ('list', 'idx'), False),
    'spike_sync': ('sync', 'scalar', ('pair', 'list', 'star', 'idx'), True),
    'spike_sync_multi': ('sync', 'scalar', ('list', 'idx'), True),
    'spike_sync_matrix': ('sync', 'matrix', ('list', 'idx'), True),
    'filter_by_spike_sync': ('sync', 'filter', ('list',), False),
    'spike_train_order_profile': ('order', 'disc', ('pair', 'list', 'star', 'idx'), False),
    'spike_train_order_profile_bi': ('order', 'disc', ('pair',), False),
    'spike_train_order_profile_multi': ('order', 'disc', ('list', 'idx'), False),
    'spike_train_order': ('order', 'scalar', ('pair', 'list', 'star', 'idx'), False),
    'spike_train_order_bi': ('order', 'scalar', ('pair',), False),
    'spike_train_order_multi': ('order', 'scalar', ('list', 'idx'), False),
    'spike_directionality': ('dir', 'scalar', ('pair',), False),
    'spike_directionality_values': ('dir', 'values', ('pair', 'list', 'star', 'idx'), False),
    'spike_directionality_matrix': ('dir', 'matrix', ('list', 'idx'), False),
}
MEASURE_FUNCS = sorted(FUNCS)
SCALAR = {'isi': 'isi_distance', 'spike': 'spike_distance', 'sync': 'spike_sync', 'order': 'spike_train_order'}
PROFILE = {'isi': 'isi_profile', 'spike': 'spike_profile', 'sync': 'spike_sync_profile',
           'order': 'spike_train_order_profile'}


# ----------------------------------------------------------------------
# executing calls
# ----------------------------------------------------------------------
def make_trains(spk, specs):
    """the caller constructs its trains the various ways the constructor documents: spike times as
    array / list / tuple (integral times also as Python ints), edges as list / tuple / array"""
    out = []
    for sp in specs:
        style = sp.get('c', 'arr')
        times = [float(t) for t in sp['s']]
        if style == 'list':
            arg = list(times)
        elif style == 'tuple':
            arg = tuple(times)
        elif style == 'intlist' and all(t == int(t) for t in times):
            arg = [int(t) for t in times]
        else:
            arg = np.array(times, dtype=float)
        e = [sp['e'][0], sp['e'][1]]
        es = sp.get('ce', 'list')
        edges = tuple(e) if es == 'tuple' else np.array(e) if es == 'arr' else e
        out.append(spk.SpikeTrain(arg, edges))
    return out


def dec_kw(kw):
    """keyword values in the Python types a caller may legitimately use (recorded under '__ty')"""
    out = dict(kw)
    ty = out.pop('__ty', None) or {}
    if ty.get('Reconcile') == 'npbool' and 'Reconcile' in out:
        out['Reconcile'] = np.bool_(out['Reconcile'])
    for key, t in ty.items():
        if key not in out or out[key] is None or isinstance(out[key], (str, bool, np.bool_)):
            continue
        v = out[key]
        if key == 'interval':
            if t == 'tuple':
                out[key] = tuple(tuple(p) for p in v) if isinstance(v[0], (list, tuple)) else tuple(v)
            elif t == 'listoftuples' and isinstance(v[0], (list, tuple)):
                out[key] = [tuple(p) for p in v]
            elif t == 'arr':
                out[key] = np.array(v, dtype=float)
        elif key in ('MRTS', 'max_tau', 'threshold'):
            if t == 'int' and float(v) == int(v):
                out[key] = int(v)
            elif t == 'npfloat':
                out[key] = np.float64(v)
            elif t == 'np0d':
                out[key] = np.array(float(v))
    return out


def invoke(spk, trains, fn, form, sel, kw):
    f = getattr(spk, fn)
    ity = (kw.get('__ty') or {}).get('indices')
    kw = dec_kw(kw)
    if ity:
        kw['__ity'] = ity
    if form != 'idx':
        kw.pop('__ity', None)
    if form == 'pair':
        return f(trains[sel[0]], trains[sel[1]], **kw)
    if form == 'list':
        return f([trains[i] for i in sel], **kw)
    if form == 'star':
        return f(*[trains[i] for i in sel], **kw)
    if form == 'idx':
        ity = (kw.pop('__ity', None) if '__ity' in kw else None)
        idx = list(sel)
        return f(trains, indices=(tuple(idx) if ity == 'tuple' else np.array(idx) if ity == 'arr' else idx), **kw)
    raise ValueError(form)


def try_invoke(spk, trains, fn, form, sel, kw):
    """returns ('ok', result) or ('exc', exception)"""
    with captured_stdout():
        try:
            return 'ok', invoke(spk, trains, fn, form, sel, kw)
        except Exception as e:   # noqa
            return 'exc', e


def _arrays_of(r, out):
    cls = type(r).__name__
    if isinstance(r, np.ndarray):
        out.append(r)
    elif cls in ('PieceWiseConstFunc', 'PieceWiseLinFunc', 'DiscreteFunc'):
        for nm in ('x', 'y', 'y1', 'y2', 'mp'):
            a = getattr(r, nm, None)
            if isinstance(a, np.ndarray):
                out.append(a)
    elif cls == 'SpikeTrain':
        if isinstance(r.spikes, np.ndarray):
            out.append(r.spikes)
    elif isinstance(r, (list, tuple)):
        for x in r:
            _arrays_of(x, out)
    return out


def scribble(pool, *results):
    """the caller overwrites what it was handed back (it owns it); a later call must not notice.
    Arrays that share memory with one of the caller's own trains are left alone."""
    own = [t.spikes for t in pool if isinstance(t.spikes, np.ndarray)]
    for a in _arrays_of(list(results), []):
        try:
            if a.size and a.flags.writeable and a.dtype.kind in 'fi' and \
                    not any(np.shares_memory(a, o) for o in own):
                a[...] = -4242
        except Exception:
            pass


def snapshot(trains):
    out = []
    for t in trains:
        a = t.spikes
        try:
            arr = np.asarray(a)
            out.append((type(a).__name__, arr.tobytes(), str(arr.dtype), arr.shape, float(t.t_start), float(t.t_end)))
        except Exception as e:      # whatever the library left there, it is not what the caller put in
            out.append((type(a).__name__, repr(e)))
    return out


def shape_facts(specs, sel=None):
    idx = range(len(specs)) if sel is None else sel
    counts = [len(specs[i]['s']) for i in idx]
    return {'counts': counts, 'n_empty': sum(1 for c in counts if c == 0), 'n': len(counts)}


# ----------------------------------------------------------------------
# well-formedness (C18) and range (C07) predicates on returned values
# ----------------------------------------------------------------------
def wellformed(kind, r, t0, t1, nsel=None, counts=None):
    """None or a description of the first deviation"""
    cls = type(r).__name__
    if kind in ('pwc', 'pwl'):
        want = 'PieceWiseConstFunc' if kind == 'pwc' else 'PieceWiseLinFunc'
        if cls != want:
            return "returned %s, expected %s" % (cls, want)
        x = np.asarray(r.x, dtype=float)
        ys = [np.asarray(r.y, dtype=float)] if kind == 'pwc' else \
            [np.asarray(r.y1, dtype=float), np.asarray(r.y2, dtype=float)]
        if len(x) < 2:
            return "time axis has %d entries" % len(x)
        if x[0] != t0 or x[-1] != t1:
            return "time axis runs %r..%r, expected %r..%r" % (float(x[0]), float(x[-1]), t0, t1)
        if not np.all(np.diff(x) > 0):
            return "time axis not strictly increasing"
        for y in ys:
            if len(y) != len(x) - 1:
                return "value array length %d for %d breakpoints" % (len(y), len(x))
            if not np.all(np.isfinite(y)):
                return "non-finite profile value"
        if not np.all(np.isfinite(x)):
            return "non-finite time"
        return None
    if kind == 'disc':
        if cls != 'DiscreteFunc':
            return "returned %s, expected DiscreteFunc" % cls
        x = np.asarray(r.x, dtype=float)
        y = np.asarray(r.y, dtype=float)
        mp = np.asarray(r.mp, dtype=float)
        if len(x) < 2:
            return "discrete profile with %d entries (two edge entries required)" % len(x)
        if not (len(x) == len(y) == len(mp)):
            return "array lengths differ: %d %d %d" % (len(x), len(y), len(mp))
        if x[0] != t0 or x[-1] != t1:
            return "time axis runs %r..%r, expected %r..%r" % (float(x[0]), float(x[-1]), t0, t1)
        if not np.all(np.diff(x) >= 0):
            return "time axis decreasing"
        if not (np.all(np.isfinite(x)) and np.all(np.isfinite(y)) and np.all(np.isfinite(mp))):
            return "non-finite entry"
        return None
    if kind == 'scalar':
        try:
            v = float(r)
        except Exception:
            return "returned %s, not a number" % cls
        if not np.isfinite(v):
            return "returned %r" % v
        return None
    if kind == 'matrix':
        m = np.asarray(r, dtype=float)
        if m.ndim != 2 or m.shape[0] != m.shape[1] or (nsel is not None and m.shape[0] != nsel):
            return "matrix of shape %r for %r trains" % (m.shape, nsel)
        if not np.all(np.isfinite(m)):
            return "non-finite matrix entry"
        return None
    if kind == 'values':
        if not isinstance(r, (list, tuple)) or (nsel is not None and len(r) != nsel):
            return "returned %r entries for %r trains" % (len(r) if hasattr(r, '__len__') else None, nsel)
        for k, a in enumerate(r):
            a = np.asarray(a, dtype=float)
            if counts is not None and len(a) != counts[k]:
                return "values for train %d have length %d, train has %d spikes" % (k, len(a), counts[k])
            if not np.all(np.isfinite(a)):
                return "non-finite directionality value"
        return None
    if kind == 'filter':
        lst = r
        if isinstance(r, list) and len(r) == 2 and isinstance(r[0], list):
            lst = r[0] + r[1]
        for st in lst:
            if type(st).__name__ != 'SpikeTrain':
                return "filter returned %s" % type(st).__name__
            if not np.all(np.isfinite(st.spikes)) or st.t_start != t0 or st.t_end != t1:
                return "filtered train malformed"
        return None
    return None


def in_range(family, kind, fn, r, kw):
    """C07 range clause; None or description"""
    eps = 1e-12
    if family in ('isi', 'spike'):
        if kind == 'pwc':
            vals = np.asarray(r.y, dtype=float)
        elif kind == 'pwl':
            vals = np.concatenate([np.asarray(r.y1, dtype=float), np.asarray(r.y2, dtype=float)])
        elif kind == 'scalar':
            vals = np.array([float(r)])
        else:
            vals = np.asarray(r, dtype=float).ravel()
        if not np.all(np.isfinite(vals)):
            return "non-finite value"
        if np.any(vals < -eps) or np.any(vals > 1 + eps):
            return "value %r outside [0,1]" % float(vals[np.argmax(np.abs(vals - 0.5))])
        return None
    if family == 'sync':
        if kind == 'disc':
            y = np.asarray(r.y, dtype=float)[1:-1]
            mp = np.asarray(r.mp, dtype=float)[1:-1]
            if np.any(y < -eps) or np.any(y > mp + eps):
                return "profile entry outside [0, multiplicity]"
            return None
        if kind == 'scalar':
            v = float(r)
            if not (v == v) or v < -eps or v > 1 + eps:
                return "SPIKE-Sync value %r outside [0,1]" % v
            return None
        if kind == 'matrix':
            m = np.asarray(r, dtype=float)
            if not np.all(np.isfinite(m)) or np.any(m < -eps) or np.any(m > 1 + eps):
                return "SPIKE-Sync matrix entry outside [0,1]"
            return None
    if family == 'order' and kind == 'scalar':
        if kw.get('normalize', True):
            v = float(r)
            if v == v and (v < -1 - eps or v > 1 + eps):
                return "spike-train order %r outside [-1,1]" % v
        return None
    if family == 'dir' and kind == 'scalar':
        if kw.get('normalize', True):
            v = float(r)
            if v == v and (v < -1 - eps or v > 1 + eps):
                return "normalised directionality %r outside [-1,1]" % v
        return None
    return None


# ----------------------------------------------------------------------
# generation
# ----------------------------------------------------------------------
def _forms_for(fn, k):
    forms = [f for f in FUNCS[fn][2]]
    if k != 2 and 'pair' in forms:
        forms.remove('pair')
    return forms


def _gen_call(rng, wp, pool, fns=None, allow_auto=True, want_interval=True, normalize=True, no_reconcile=False):
    fn = rng.choice(fns or MEASURE_FUNCS)
    family, kind, forms, has_iv = FUNCS[fn]
    n = len(pool)
    if forms == ('pair',):
        sel = gen.gen_sel(rng, n, 2, 2)
        form = 'pair'
    else:
        sel = gen.gen_sel(rng, n, 2, n)
        form = rng.choice(_forms_for(fn, len(sel)))
        if fn == 'filter_by_spike_sync':
            form = 'list'
    kw = gen.gen_kw(rng, wp, family, allow_auto, no_reconcile=no_reconcile)
    if has_iv and want_interval:
        iv = gen.gen_interval(rng, wp, [t for i in sel for t in pool[i]])
        if iv is not None or rng.random() < 0.3:
            kw['interval'] = iv
    if normalize and fn in ('spike_train_order', 'spike_train_order_bi', 'spike_train_order_multi',
                            'spike_directionality', 'spike_directionality_matrix'):
        nz = rng.choice(['omit', True, False])
        if nz != 'omit':
            kw['normalize'] = nz
    if fn == 'filter_by_spike_sync':
        kw['threshold'] = rng.choice([0.0, 0.25, 0.5, 0.75, 1.0, rng.random()])
        if rng.random() < 0.5:
            kw['return_removed_spikes'] = True
    return {'op': 'call', 'fn': fn, 'form': form, 'sel': sel, 'kw': kw}


def _sanitize_near_edges(raw, extra=None):
    """C13 says reconcile keeps input times inside the common interval 'with tolerance 1e-6': a time
    that lies within that tolerance OUTSIDE an edge may be kept or dropped.  Such times (they arise
    from jittered copies next to a shrunken edge) are snapped onto the edge, so that every generated
    time is either inside, exactly on, or clearly (>= 0.25) outside every interval a selection can have."""
    starts = sorted(set(sp['e'][0] for sp in raw))
    ends = sorted(set(sp['e'][1] for sp in raw))
    lists = [sp['s'] for sp in raw] + ([extra] if extra is not None else [])
    for s in lists:
        for k, t in enumerate(s):
            for E in ends:
                if 0 < t - E <= 1e-5:
                    s[k] = E
            for E in starts:
                if 0 < E - t <= 1e-5:
                    s[k] = E


def _disorder(rng, wp, s, other_edges):
    """a raw (invalid) version of a valid spike list: shuffled, with repeats"""
    s = list(s)
    for _ in range(rng.randint(0, 3)):
        if s:
            s.append(rng.choice(s))
    rng.shuffle(s)
    return s


def generate(prop, rng, tier):
    wp = gen.gen_wp(rng)
    config = 'compiled' if rng.random() < 0.5 else 'fallback'
    nops = rng.randint(6, 14) if tier == 'quick' else rng.randint(10, 30)
    e = gen.edges(wp)
    ops = []
    big = tier == 'thorough' and rng.random() < 0.4      # deeper bounds in the thorough tier
    nmax, nspk = (8, 14) if big else (6, 8)
    if prop == 'C18':
        pool = gen.gen_degenerate_pool(rng, wp, nmax=nmax) if rng.random() < 0.7 else \
            gen.gen_pool(rng, wp, nmax=nmax, nspk=nspk)
    else:
        # scale: now and then one train is long (hundreds of spikes); costly, hence rare
        pool = gen.gen_pool(rng, wp, nmax=nmax, nspk=nspk, long_p=0.03 if tier == 'thorough' else 0.012)
        if len(pool[0]) > 200:
            rng.shuffle(pool)
            nops = min(nops, 8)
    specs = [{'s': s, 'e': list(e), 'c': rng.choice(['arr', 'arr', 'list', 'tuple', 'intlist']),
              'ce': rng.choice(['list', 'list', 'tuple', 'arr'])} for s in pool]

    if prop == 'C05':
        for _ in range(nops):
            m = rng.choice(['isi', 'spike', 'spike', 'sync', 'sync', 'order'])
            fn = SCALAR[m]
            sel = gen.gen_sel(rng, len(pool), 2, len(pool))
            form = rng.choice(_forms_for(fn, len(sel)))
            kw = gen.gen_kw(rng, wp, m, no_reconcile=True)
            iv = None
            if m != 'order':
                iv = gen.gen_interval(rng, wp, [t for i in sel for t in pool[i]])
            if m == 'order' and rng.random() < 0.3:
                kw['normalize'] = True
            if iv is not None and rng.random() < 0.06:
                # an ndarray interval: rejected alike by both routes of the pinned tree (then nothing is
                # compared); if a tree accepts it, C05 applies to it like to any accepted interval
                kw.setdefault('__ty', {})['interval'] = 'arr'
            ops.append({'op': 'svp', 'm': m, 'form': form, 'sel': sel, 'kw': kw, 'iv': iv,
                        'ivkw': iv is not None or rng.random() < 0.3})
    elif prop == 'C07':
        for _ in range(nops):
            r = rng.random()
            sel = gen.gen_sel(rng, len(pool), 2, 2)
            if r < 0.35:
                fns = [f for f in MEASURE_FUNCS if FUNCS[f][1] in ('pwc', 'pwl', 'disc', 'scalar')
                       and 'pair' in FUNCS[f][2]]
                c = _gen_call(rng, wp, pool, fns, no_reconcile=True)
                c['op'] = 'range'
                c['form'] = 'pair'
                c['sel'] = sel
                ops.append(c)
            elif r < 0.7:
                m = rng.choice(['isi', 'spike', 'sync'])
                kind = rng.choice(['prof', 'scalar'])
                kw = gen.gen_kw(rng, wp, m, no_reconcile=True)
                if kind == 'scalar':
                    iv = gen.gen_interval(rng, wp, [t for i in sel for t in pool[i]])
                    if iv is not None:
                        kw['interval'] = iv
                ops.append({'op': 'swap', 'm': m, 'kind': kind, 'sel': sel, 'kw': kw})
            else:
                m = rng.choice(['isi', 'spike', 'sync', 'dir'])
                kw = gen.gen_kw(rng, wp, m, no_reconcile=True)
                i = rng.randrange(len(pool))
                if m != 'dir':
                    iv = gen.gen_interval(rng, wp, list(pool[i]))
                    if iv is not None:
                        kw['interval'] = iv
                ops.append({'op': 'self', 'm': m, 'i': i, 'copy': rng.random() < 0.5,
                            'kind': rng.choice(['prof', 'scalar']) if m != 'dir' else 'scalar', 'kw': kw})
    elif prop == 'C14':
        for _ in range(nops):
            fn = rng.choice([f for f in MEASURE_FUNCS if len(FUNCS[f][2]) > 1])
            family, kind, forms, has_iv = FUNCS[fn]
            sel = gen.gen_sel(rng, len(pool), 2, len(pool))
            kw = gen.gen_kw(rng, wp, family, no_reconcile=True)
            if has_iv:
                iv = gen.gen_interval(rng, wp, [t for i in sel for t in pool[i]])
                if iv is not None:
                    kw['interval'] = iv
            if fn in ('spike_train_order', 'spike_directionality_matrix') and rng.random() < 0.4:
                kw['normalize'] = rng.choice([True, False])
            ops.append({'op': 'forms', 'fn': fn, 'sel': sel, 'kw': kw})
    elif prop == 'C18':
        for _ in range(nops):
            ops.append(_gen_call(rng, wp, pool, no_reconcile=True))
    elif prop == 'C13':
        # raw pool: disordered / repeated spike times, sometimes different edges and
        # out-of-range times (>= 0.5 outside, or exactly 5e-7 outside for the reconcile op only)
        raw = []
        diff_edges = rng.random() < 0.4
        for s in pool:
            ed = list(e)
            if diff_edges and rng.random() < 0.5:
                ed = [e[0] + rng.choice([0.0, 0.25, -0.5]) * 1.0, e[1] + rng.choice([0.0, -0.25, 0.5])]
            raw.append({'s': _disorder(rng, wp, s, None), 'e': ed})
        if diff_edges and rng.random() < 0.5:
            k = rng.randrange(len(raw))
            raw[k]['s'].append(min(sp['e'][0] for sp in raw) - rng.choice([0.5, 1.0, 3.0]))
            if rng.random() < 0.5:
                raw[k]['s'].append(max(sp['e'][1] for sp in raw) + rng.choice([0.5, 2.0]))
        _sanitize_near_edges(raw)
        specs = raw
        pool = list(pool)      # grows: trains returned by reconcile are kept by the caller and reused
        for _ in range(nops):
            r = rng.random()
            if r < 0.14:
                sel = gen.gen_sel(rng, len(pool), 1, min(len(pool), 4))
                o = {'op': 'reconcile', 'sel': sel, 'near': rng.random() < 0.3,
                     'scribble': rng.random() < 0.5}
                ops.append(o)
                if not o['scribble'] and len(pool) < 12:
                    for i in sel:
                        pool.append(sorted(set(pool[i])))
            elif r < 0.55:
                c = _gen_call(rng, wp, pool, allow_auto=True, want_interval=False)
                c['op'] = 'disorder'
                if c['form'] == 'pair' and rng.random() < 0.15:
                    c['sel'] = [c['sel'][0], c['sel'][0]]      # the very same object as both trains
                if rng.random() < 0.2:
                    # reconciliation requested explicitly, with the truthy values callers use
                    c['kw']['Reconcile'] = rng.choice([True, 1])
                    if rng.random() < 0.5:
                        c['kw'].setdefault('__ty', {})['Reconcile'] = 'npbool'
                ops.append(c)
            elif r < 0.75:
                c = _gen_call(rng, wp, pool, want_interval=True)
                c['op'] = 'noreconcile'
                ops.append(c)
            elif r < 0.9:
                c = _gen_call(rng, wp, pool)
                if rng.random() < 0.3:
                    # reconciliation switched off on the caller's raw trains: the result is unspecified,
                    # but the trains must come back untouched all the same
                    c['kw']['Reconcile'] = False
                ops.append(c)
            else:
                k = rng.choice(['merge', 'psth', 'copy', 'ctor', 'nonempty', 'len_getitem'])
                ops.append({'op': 'misc', 'what': k, 'sel': gen.gen_sel(rng, len(pool), 1, len(pool)),
                            'bin': rng.choice([1.0, 0.5, 1.0 / 3, 0.3]) * wp['T']})
    else:
        raise ValueError(prop)
    # the caller owns the pool and may change it between calls (stale caches keyed on identity show then)
    if rng.random() < 0.5:
        for _ in range(rng.randint(1, 3)):
            k = rng.randrange(len(pool))
            new = gen.gen_spikes(rng, wp) if prop != 'C18' or rng.random() < 0.5 else \
                rng.choice([[], [e[0]], [e[1]], [gen.gen_time(rng, wp)]])
            if prop == 'C13':
                new = _disorder(rng, wp, new, None)
                _sanitize_near_edges(specs, new)
            ops.insert(rng.randrange(len(ops) + 1),
                       {'op': 'mutate', 'i': k, 's': new, 'how': rng.choice(['rebind', 'inplace', 'sort'])})
    order_seed = rng.randrange(1 << 30)
    return {'swarm': {'wp': wp, 'config': config, 'tier': tier, 'order_seed': order_seed,
                      'fail_exc': 'ImportError' if rng.random() < 0.2 else 'ModuleNotFoundError'},
            'init': {'pool': specs}, 'ops': ops, 'faults': {}}


# ----------------------------------------------------------------------
# execution
# ----------------------------------------------------------------------
def _plan_for(run):
    return BackendPlan(ALL_COMPILED if run['swarm']['config'] == 'compiled' else (),
                       fail_exc=run['swarm'].get('fail_exc', 'ModuleNotFoundError'))


def _strip_iv(kw):
    kw = dict(kw)
    iv = kw.pop('interval', None)
    return kw, iv


def execute(world, run, prop=None):
    prop = prop or run['property']
    rec = Recorder(prop)
    spk = world.spk
    specs = [{'s': list(sp['s']), 'e': list(sp['e'])} for sp in run['init']['pool']]
    config = run['swarm']['config']
    events = []
    plan = _plan_for(run)
    import random as _random
    rec.order = _random.Random(run['swarm'].get('order_seed', 0))
    with world.run_context(plan, events):
        pool = make_trains(spk, specs)
        snap = snapshot(pool)
        t0 = min(sp['e'][0] for sp in specs)
        t1 = max(sp['e'][1] for sp in specs)
        for step, op in enumerate(run['ops']):
            rec.step = step
            if op['op'] == 'mutate':
                i = op['i'] % len(pool)
                new = np.array(op['s'], dtype=float)
                if op['how'] == 'sort':
                    pool[i].sort()
                    specs[i]['s'] = sorted(specs[i]['s'])
                elif op['how'] == 'inplace' and isinstance(pool[i].spikes, np.ndarray) and \
                        len(new) == len(pool[i].spikes):
                    pool[i].spikes[...] = new
                    specs[i]['s'] = list(op['s'])
                else:
                    pool[i].spikes = new
                    specs[i]['s'] = list(op['s'])
                snap = snapshot(pool)
                rec.log(('mutate', i, op['how']))
                continue
            if any(i >= len(pool) for i in op.get('sel', [])) or op.get('i', 0) >= len(pool):
                rec.log(('skip', op['op']))
                continue
            try:
                kept = _exec_op(world, spk, rec, prop, op, pool, specs, config, t0, t1)
            except _HarnessBug:
                raise
            if op['op'] == 'reconcile' and kept and len(pool) < 12:
                # the caller keeps the returned trains and passes them to later calls
                for o in kept:
                    pool.append(o)
                    specs.append({'s': [float(t) for t in o.spikes], 'e': [float(o.t_start), float(o.t_end)]})
                snap = snapshot(pool)
            if prop == 'C13':
                now = snapshot(pool)
                if now != snap:
                    bad = [k for k in range(len(pool)) if now[k] != snap[k]]
                    rec.violate('C13.input_mutated',
                                {'op': op, 'trains_changed': bad, 'config': config},
                                {'op': op['op'], 'fn': op.get('fn', op.get('what')), 'config': config})
                    pool[:] = make_trains(spk, specs)
                    snap = snapshot(pool)
    rec.log(('events', len(events), digest(events)))
    return rec, dict(plan.fired)


class _HarnessBug(Exception):
    pass


def _facts(op, specs, config, sel=None, **extra):
    f = {'config': config, 'fn': op.get('fn'), 'form': op.get('form'), 'op': op['op']}
    f.update(shape_facts(specs, sel if sel is not None else op.get('sel')))
    kw = op.get('kw', {})
    mr = kw.get('MRTS', 'omit')
    f['MRTS'] = mr if mr in ('omit', 'auto') else 'num'
    # is any time difference of the trains involved (edges included) below the range in which its
    # square is representable in double precision?
    idx = sel if sel is not None else op.get('sel')
    if idx is None and 'i' in op:
        idx = [op['i']]
    ts = set()
    for i in (idx or range(len(specs))):
        if 0 <= i < len(specs):
            ts.update(specs[i]['s'])
            ts.update(specs[i]['e'])
    ts = sorted(ts)
    f['underflow_scale'] = any(0 < b - a < 1e-150 for a, b in zip(ts, ts[1:]))
    f['normalize'] = kw.get('normalize', True)
    f.update(extra)
    return f


def _exec_op(world, spk, rec, prop, op, pool, specs, config, t0, t1):
    kind = op['op']
    if kind == 'call':
        fn, form, sel, kw = op['fn'], op['form'], op['sel'], op['kw']
        st, r = try_invoke(spk, pool, fn, form, sel, kw)
        rec.log(('call', fn, form, st, digest(norm(r))))
        if prop != 'C18' and rec.order.random() < 0.5:
            scribble(pool, r)
        if prop == 'C18':
            family, k, _, _ = FUNCS[fn]
            counts = [len(specs[i]['s']) for i in sel]
            first_empty = len(specs[sel[0]]['s']) == 0
            facts = _facts(op, specs, config, first_empty=first_empty,
                           all_empty=all(c == 0 for c in counts))
            rec.compared += 1
            if st == 'exc':
                rec.violate('C18.no_exception', {'op': op, 'exception': norm(r), 'config': config,
                                                 'trains': [specs[i]['s'] for i in sel]},
                            dict(facts, exc=type(r).__name__))
            else:
                why = wellformed(k, r, t0, t1, len(sel), counts)
                if why:
                    rec.violate('C18.wellformed', {'op': op, 'why': why, 'config': config,
                                                   'trains': [specs[i]['s'] for i in sel],
                                                   'result': norm(r)}, facts)
            if rec.order.random() < 0.5:
                scribble(pool, r)
        return
    if kind == 'svp':
        return _op_svp(spk, rec, op, pool, specs, config)
    # (svp, swap, self, forms and disorder scribble on their results themselves)
    if kind == 'range':
        fn, form, sel, kw = op['fn'], op['form'], op['sel'], op['kw']
        st, r = try_invoke(spk, pool, fn, form, sel, kw)
        rec.log(('range', fn, st, digest(norm(r))))
        if st == 'ok':
            family, k, _, _ = FUNCS[fn]
            rec.compared += 1
            why = in_range(family, k, fn, r, kw)
            if why:
                rec.violate('C07.range', {'op': op, 'why': why, 'config': config,
                                          'trains': [specs[i]['s'] for i in sel], 'result': norm(r)},
                            _facts(op, specs, config))
        return
    if kind == 'swap':
        return _op_swap(spk, rec, op, pool, specs, config)
    if kind == 'self':
        return _op_self(spk, rec, op, pool, specs, config)
    if kind == 'forms':
        return _op_forms(spk, rec, op, pool, specs, config)
    if kind == 'reconcile':
        return _op_reconcile(spk, rec, op, pool, specs, config)
    if kind in ('disorder', 'noreconcile'):
        return _op_disorder(spk, rec, op, pool, specs, config)
    if kind == 'misc':
        return _op_misc(spk, rec, op, pool, specs, config)
    raise _HarnessBug("unknown op %r" % kind)


def _op_svp(spk, rec, op, pool, specs, config):
    m, form, sel, kw, iv = op['m'], op['form'], op['sel'], dict(op['kw']), op['iv']
    skw = dict(kw)
    if op.get('ivkw'):
        skw['interval'] = iv
    pkw = dict(kw)
    pkw.pop('normalize', None)
    if rec.order.random() < 0.5:
        st1, sc = try_invoke(spk, pool, SCALAR[m], form, sel, skw)
        st2, pr = try_invoke(spk, pool, PROFILE[m], form, sel, pkw)
    else:
        st2, pr = try_invoke(spk, pool, PROFILE[m], form, sel, pkw)
        st1, sc = try_invoke(spk, pool, SCALAR[m], form, sel, skw)
    rec.log(('svp', m, form, st1, st2, digest(norm(sc)), digest(norm(pr))))
    npr = norm(pr)
    if rec.order.random() < 0.5:
        scribble(pool, pr, sc)
    facts = _facts(op, specs, config, m=m, iv=('none' if iv is None else 'sub'))
    detail = {'op': op, 'config': config, 'trains': [specs[i]['s'] for i in sel],
              'edges': specs[0]['e']}
    if st1 == 'exc' or st2 == 'exc':
        # an exception on valid input is C18's business, not an inequality
        rec.probe('svp_exception')
        return
    try:
        scv = float(sc)
        if m == 'isi':
            want = models.pwc_average(npr['pwc'][0], npr['pwc'][1], iv)
        elif m == 'spike':
            x, y1, y2 = npr['pwl']
            want = models.pwl_average(x, y1, y2, iv)
        else:
            x, y, mp = npr['disc']
            sv, sm = models.disc_sums(x, y, mp, iv)
            if sm == 0:
                if m == 'sync':
                    want = 1.0      # convention stated by the property
                else:
                    rec.probe('order_zero_multiplicity')
                    return          # the property defines no value
            else:
                want = sv / sm
    except Exception as e:
        rec.violate('C05.profile_unusable', dict(detail, error=repr(e), profile=npr), facts)
        return
    rec.compared += 1
    if not close(scv, want):
        rec.violate('C05.scalar_eq_profile', dict(detail, scalar=scv, profile_average=want,
                                                  profile=npr),
                    dict(facts, scalar_nan=(scv != scv), want_nan=(want != want)))
    if m == 'sync':
        # no spike in the closed averaging interval(s) -> 1 by convention
        spikes = [t for i in sel for t in specs[i]['s']]
        ivs = models._ivs(iv, specs[0]['e'])
        if not any(a <= t <= b for t in spikes for a, b in ivs):
            rec.probe('sync_no_spike_in_interval')
            if scv != 1.0:
                rec.violate('C05.sync_empty_is_one', dict(detail, scalar=scv), facts)


def _op_swap(spk, rec, op, pool, specs, config):
    m, kind, sel, kw = op['m'], op['kind'], op['sel'], op['kw']
    fn = PROFILE[m] if kind == 'prof' else SCALAR[m]
    st1, r1 = try_invoke(spk, pool, fn, 'pair', sel, kw)
    n1 = norm(r1)
    if rec.order.random() < 0.5:
        scribble(pool, r1)          # before the second call: it must not be handed the same arrays again
    st2, r2 = try_invoke(spk, pool, fn, 'pair', [sel[1], sel[0]], kw)
    rec.log(('swap', fn, st1, st2, digest(n1), digest(norm(r2))))
    if st1 == 'exc' and st2 == 'exc':
        return
    rec.compared += 1
    if st1 != st2 or not same_norm(n1, norm(r2)):
        rec.violate('C07.swap_symmetry', {'op': op, 'config': config, 'fn': fn,
                                          'trains': [specs[i]['s'] for i in sel],
                                          'ab': n1, 'ba': norm(r2)},
                    _facts(op, specs, config, fn=fn, m=m))


def _op_self(spk, rec, op, pool, specs, config):
    m, i, kw, kind = op['m'], op['i'], dict(op['kw']), op['kind']
    a = pool[i]
    b = a.copy() if op['copy'] else a
    trains = [a, b]
    if m == 'dir':
        kw['normalize'] = False
        st, r = try_invoke(spk, trains, 'spike_directionality', 'pair', [0, 1], kw)
        rec.log(('self', 'dir', st, digest(norm(r))))
        if st == 'ok':
            rec.compared += 1
            if not (float(r) == 0.0):
                rec.violate('C07.identity', {'op': op, 'config': config, 'train': specs[i]['s'],
                                             'result': norm(r), 'expected': 0.0},
                            _facts(op, specs, config, sel=[i], m=m))
        return
    fn = PROFILE[m] if kind == 'prof' else SCALAR[m]
    if kind == 'prof':
        kw.pop('interval', None)
    st, r = try_invoke(spk, trains, fn, 'pair', [0, 1], kw)
    rec.log(('self', fn, st, digest(norm(r))))
    if st != 'ok':
        return
    rec.compared += 1
    ok = True
    try:
        if kind == 'scalar':
            v = float(r)
            ok = (abs(v) <= 1e-12) if m in ('isi', 'spike') else (v == 1.0)
        elif m == 'isi':
            ok = bool(np.all(np.abs(np.asarray(r.y, dtype=float)) <= 1e-12))
        elif m == 'spike':
            ok = bool(np.all(np.abs(np.asarray(r.y1, dtype=float)) <= 1e-12) and
                      np.all(np.abs(np.asarray(r.y2, dtype=float)) <= 1e-12))
        else:
            y = np.asarray(r.y, dtype=float)[1:-1]
            mp = np.asarray(r.mp, dtype=float)[1:-1]
            ok = bool(np.all(y == mp))
    except Exception:
        ok = False
    if not ok:
        rec.violate('C07.identity', {'op': op, 'config': config, 'fn': fn, 'train': specs[i]['s'],
                                     'edges': specs[i]['e'], 'result': norm(r)},
                    _facts(op, specs, config, sel=[i], m=m, fn=fn,
                           nan=not all_finite(norm(r))))


def _op_forms(spk, rec, op, pool, specs, config):
    fn, sel, kw = op['fn'], op['sel'], op['kw']
    forms = _forms_for(fn, len(sel))
    if kw.get('MRTS') == 'auto' and 'idx' in forms and sorted(sel) != list(range(len(pool))):
        forms = [f for f in forms if f != 'idx']
    results = []
    forms = list(forms)
    rec.order.shuffle(forms)
    for form in forms:
        st, r = try_invoke(spk, pool, fn, form, sel, kw)
        results.append((form, st, norm(r)))
        if rec.order.random() < 0.5:
            scribble(pool, r)
    rec.log(('forms', fn, [(f, s, digest(n)) for f, s, n in results]))
    if len(results) < 2:
        return
    rec.compared += 1
    f0, s0, n0 = results[0]
    for f, s, n in results[1:]:
        if s != s0 or (s == 'ok' and not same_norm(n0, n)) or (s == 'exc' and n0.get('exc') != n.get('exc')):
            rec.violate('C14.forms_agree', {'op': op, 'config': config,
                                            'pool': [sp['s'] for sp in specs], 'edges': specs[0]['e'],
                                            'form_a': f0, 'result_a': n0, 'form_b': f, 'result_b': n},
                        _facts(op, specs, config, form_a=f0, form_b=f, status_a=s0, status_b=s,
                               npool=len(specs), identity_prefix=(list(sel) == list(range(len(sel))))))
            break


def _op_reconcile(spk, rec, op, pool, specs, config):
    sel = op['sel']
    sub_specs = [dict(specs[i]) for i in sel]
    trains = [pool[i] for i in sel]
    if op.get('near'):
        # one extra train carrying times exactly 5e-7 outside (may be kept or dropped)
        lo = min(sp['e'][0] for sp in sub_specs)
        hi = max(sp['e'][1] for sp in sub_specs)
        extra = {'s': [lo - 5e-7, (lo + hi) / 2, hi + 5e-7], 'e': [lo, hi]}
        sub_specs.append(extra)
        trains = trains + make_trains(spk, [extra])
    with captured_stdout():
        try:
            out = spk.spikes.reconcile_spike_trains(trains)
            err = None
        except Exception as e:
            out, err = None, e
    rec.log(('reconcile', digest(norm(out)) if err is None else norm(err)))
    facts = {'config': config, 'op': 'reconcile', 'n': len(sel)}
    if err is not None:
        rec.violate('C13.reconcile_model', {'op': op, 'inputs': sub_specs, 'exception': norm(err)}, facts)
        return
    rec.compared += 1
    outs = [([float(t) for t in o.spikes], float(o.t_start), float(o.t_end)) for o in out]
    why = models.check_reconciled(sub_specs, outs)
    if why is None and any(o is t for o in out for t in trains):
        why = "returned one of the input objects instead of a new train"
    if why:
        rec.violate('C13.reconcile_model', {'op': op, 'inputs': sub_specs, 'why': why,
                                            'outputs': norm(out)}, facts)
        return
    with captured_stdout():
        out2 = spk.spikes.reconcile_spike_trains(out)
    if norm(out2) != norm(out):
        rec.violate('C13.reconcile_idempotent', {'op': op, 'inputs': sub_specs, 'once': norm(out),
                                                 'twice': norm(out2)}, facts)
    if op.get('scribble'):
        for o in out:
            if len(o.spikes):
                o.spikes[...] = -12345.0
            o.t_start, o.t_end = -1.0, -2.0
        return None
    # the extra 'near' train (times 5e-7 outside, kept or dropped at the implementation's choice) is not reused
    return list(out)[:len(sel)]


def _op_disorder(spk, rec, op, pool, specs, config):
    fn, form, sel, kw = op['fn'], op['form'], op['sel'], dict(op['kw'])
    if op['op'] == 'disorder':
        # f on the raw trains  ==  f on the model-reconciled version of what was passed
        if form == 'idx':
            passed = specs
            msel = sel
        else:
            passed = [specs[i] for i in sel]
            msel = list(range(len(sel)))
        lo = min(sp['e'][0] for sp in passed)
        hi = max(sp['e'][1] for sp in passed)
        if any((0 < t - hi <= 1e-5) or (0 < lo - t <= 1e-5) for sp in passed for t in sp['s']):
            # a time within reconcile's 1e-6 tolerance outside the common interval may be kept or
            # dropped (C13 leaves it open); nothing can be demanded of a measure on such input
            rec.probe('tolerance_band_input_skipped')
            return
        mspecs = models.reconcile_model(passed)
        mtrains = make_trains(spk, mspecs)
        st1, r1 = try_invoke(spk, pool, fn, form, sel, kw)
        st2, r2 = try_invoke(spk, mtrains, fn, form, msel, kw)
        oracle = 'C13.disorder_invariant'
        detail = {'raw': [dict(p) for p in passed], 'valid': mspecs}
    else:
        # valid input: Reconcile=False gives the same as the default
        mspecs = models.reconcile_model(specs)
        mtrains = make_trains(spk, mspecs)
        kw2 = dict(kw)
        kw2['Reconcile'] = False
        st1, r1 = try_invoke(spk, mtrains, fn, form, sel, kw)
        st2, r2 = try_invoke(spk, mtrains, fn, form, sel, kw2)
        oracle = 'C13.reconcile_off_same'
        detail = {'valid': mspecs}
    rec.log((op['op'], fn, form, st1, st2, digest(norm(r1)), digest(norm(r2))))
    if st1 == 'exc' and st2 == 'exc':
        rec.probe('both_raise')
        return
    rec.compared += 1
    if st1 != st2 or not same_norm(norm(r1), norm(r2)):
        rec.violate(oracle, dict(detail, op=op, config=config, result_a=norm(r1), result_b=norm(r2)),
                    _facts(op, specs, config))


def _op_misc(spk, rec, op, pool, specs, config):
    what, sel = op['what'], op['sel']
    trains = [pool[i] for i in sel]
    with captured_stdout():
        try:
            if what == 'merge':
                r = spk.merge_spike_trains(trains)
            elif what == 'psth':
                r = spk.psth(trains, op['bin'])
            elif what == 'copy':
                r = [t.copy() for t in trains]
                for c in r:
                    if len(c.spikes):
                        c.spikes[...] = -777.0
                    c.t_start = -5.0
                r = None
            elif what == 'ctor':
                arrs = [np.array(specs[i]['s'], dtype=float) for i in sel]
                before = [a.tobytes() for a in arrs]
                lists = [list(specs[i]['s']) for i in sel]
                made = [spk.SpikeTrain(a, list(specs[i]['e']), is_sorted=False) for a, i in zip(arrs, sel)]
                made += [spk.SpikeTrain(l, list(specs[i]['e']), is_sorted=False) for l, i in zip(lists, sel)]
                if [a.tobytes() for a in arrs] != before or lists != [list(specs[i]['s']) for i in sel]:
                    rec.violate('C13.input_mutated', {'op': op, 'what': 'constructor changed the array it was given'},
                                {'op': 'misc', 'fn': 'ctor', 'config': config})
                r = made
            elif what == 'nonempty':
                r = [np.array(t.get_spikes_non_empty()) for t in trains]
            else:
                r = [(len(t), t[0] if len(t) else None) for t in trains]
        except Exception as e:
            r = e
    rec.log(('misc', what, digest(norm(r))))


# ----------------------------------------------------------------------
# signatures for evidence
# ----------------------------------------------------------------------
def signature(run):
    specs = run['init']['pool']
    counts = sorted(len(sp['s']) for sp in specs)
    allt = [t for sp in specs for t in sp['s']]
    ties = len(allt) != len(set(allt))
    e = specs[0]['e']
    edge = any(t in (e[0], e[1]) for t in allt)
    ops = sorted((o['op'], o.get('fn', o.get('m', o.get('what', ''))), o.get('form', '')) for o in run['ops'])
    return digest([run['swarm']['config'], counts, ties, edge, ops])


# ----------------------------------------------------------------------
# shrinking hooks
# ----------------------------------------------------------------------
def simplify(run):
    """yield simpler variants of the run (pool / op arguments); ops removal is generic"""
    specs = run['init']['pool']
    ops = run['ops']
    used = set()
    for o in ops:
        for i in o.get('sel', []):
            used.add(i)
        if 'i' in o:
            used.add(o['i'])
    needs_pool = any(o.get('form') == 'idx' or o['op'] == 'forms' for o in ops)
    # drop an unreferenced train (renumber)
    for k in range(len(specs)):
        if k not in used and len(specs) > 2 or (k not in used and not needs_pool and len(specs) > 1):
            r = _copy(run)
            del r['init']['pool'][k]
            for o in r['ops']:
                if 'sel' in o:
                    o['sel'] = [i - 1 if i > k else i for i in o['sel']]
                if 'i' in o and o['i'] > k:
                    o['i'] -= 1
            yield r
    # shrink selections
    for oi, o in enumerate(ops):
        if 'sel' in o and len(o['sel']) > 2 and o.get('form') != 'pair':
            for k in range(len(o['sel'])):
                r = _copy(run)
                del r['ops'][oi]['sel'][k]
                yield r
    # drop spikes
    for k, sp in enumerate(specs):
        for j in range(len(sp['s'])):
            r = _copy(run)
            del r['init']['pool'][k]['s'][j]
            yield r
    for oi, o in enumerate(ops):
        if o['op'] == 'mutate':
            for j in range(len(o['s'])):
                r = _copy(run)
                del r['ops'][oi]['s'][j]
                yield r
    # drop keywords
    for oi, o in enumerate(ops):
        for key in list(o.get('kw', {})):
            r = _copy(run)
            del r['ops'][oi]['kw'][key]
            yield r
        if o.get('iv') is not None:
            r = _copy(run)
            r['ops'][oi]['iv'] = None
            yield r
        if o.get('form') in ('idx', 'star') and o['op'] in ('call', 'svp', 'disorder', 'noreconcile'):
            r = _copy(run)
            r['ops'][oi]['form'] = 'list'
            yield r


def _copy(run):
    import json
    return json.loads(json.dumps(run))


# ----------------------------------------------------------------------
# repeat-with-variation: an earlier operation is issued again later in the run with one
# argument changed (or none), so that memoised / cached / leftover state from the first
# issue meets different inputs
# ----------------------------------------------------------------------
def vary(run, rng):
    ops = run['ops']
    wp = run['swarm']['wp']
    T = wp['T']
    cand = [k for k, o in enumerate(ops) if o['op'] not in ('mutate', 'reconcile')]
    if not cand or rng.random() < 0.4:
        return
    for _ in range(rng.randint(1, 3)):
        k = rng.choice(cand)
        o = _copy(ops[k])
        q = rng.random()
        kw = o.get('kw')
        if kw is not None and q < 0.35:
            key = rng.choice(['MRTS', 'max_tau', 'interval'])
            if key in kw:
                if key == 'interval':
                    del kw[key]
                else:
                    kw[key] = rng.choice([0.0, T / 32, T / 4, T])
        elif q < 0.55 and len(o.get('sel', [])) >= 2 and o['op'] != 'self':
            o['sel'] = list(reversed(o['sel']))
        elif q < 0.7 and o['op'] in ('call', 'disorder', 'noreconcile', 'e2e') and o.get('form') in ('list', 'idx', 'star'):
            forms = [f for f in _forms_for(o['fn'], len(o['sel'])) if f != 'pair']
            o['form'] = rng.choice(forms) if forms else o['form']
        ops.insert(rng.randint(k + 1, len(ops)), o)


def shape(run):
    """coarse state class of a run (for distinct_nontrivial): configuration x input shape x operation kinds"""
    specs = run['init']['pool']
    counts = [len(sp['s']) for sp in specs]
    allt = [t for sp in specs for t in sp['s']]
    e = specs[0]['e']
    kinds = sorted(set(o['op'] for o in run['ops']))
    fams = sorted(set(FUNCS[o['fn']][0] if o.get('fn') in FUNCS else o.get('m', '') for o in run['ops']))
    return digest([run['swarm']['config'], len(counts), sum(1 for c in counts if c == 0), sum(1 for c in counts if c == 1),
                   len(allt) != len(set(allt)), any(t in (e[0], e[1]) for t in allt), kinds, fams])
