"""`gen` machine (DESIGN.md 4.5), serves C20: the random source behind
generate_poisson_spikes is simulator-owned (adversarial but legal exponential
draws), and the generated trains flow through merge_spike_trains and psth,
checked against a multiset model."""
import collections
import json
import math
import random

import numpy as np

from ..core import Recorder, norm, digest, close
from ..world import BackendPlan, captured_stdout
from .. import gen

MACHINE = 'genm'
FAULT_KINDS = ('draw_zero', 'draw_tiny', 'draw_huge', 'draw_exp')
ASSUMPTIONS = [
    "np.random.exponential is the only random source of generate_poisson_spikes; the simulator serves legal draws "
    "only (finite, >= 0): true exponential variates from the run's PRNG, exact zeros, 1e-12, 1e-3 and 50 scale units",
    "liveness is stated in draws: a call that asks for more than 100000 draws although the served draws passed the "
    "interval length after at most 2000 is reported as not returning",
    "merge and psth clauses are pure functions; simulation adds nothing there beyond seeded sampling of inputs "
    "(they are checked because the generated trains are their natural input)",
    "the PSTH oracle accepts either convention for a spike exactly on an interior bin edge (counted once), and "
    "demands neither a particular bin count nor that the width equals bin_size exactly",
]
RULE = {'*': "a run = 4-16 operations: generate_poisson_spikes(rate, interval) with pair and scalar interval forms "
             "under a draw plan (adversarial prefix of zero / tiny / huge draws, then exponential variates), "
             "merge_spike_trains and psth over generated trains, earlier Poisson outputs (the same draw sequence "
             "replayed for two trains so cross-train duplicates are certain) and empty trains. Non-trivial: a Poisson "
             "call with at least one adversarial draw served, or a merge/psth with >= 1 spike; distinct = distinct "
             "(operation sequence, draw-plan kinds, spike-count multiset)."}

DRAW_BUDGET = 100000


def required_fired(prop):
    return FAULT_KINDS


class DrawBudgetExceeded(BaseException):
    pass


class DrawSource(object):
    def __init__(self, plan, dseed, fired, length=None):
        self.length = length
        self.cum = 0.0
        self.plan = list(plan)
        self.pos = 0
        self.rng = random.Random(dseed)
        self.served = 0
        self.fired = fired
        self.values = []

    def exponential(self, scale=1.0, size=None):
        n = 1 if size is None else int(np.prod(size))
        if self.served + n > DRAW_BUDGET:
            raise DrawBudgetExceeded()
        out = np.empty(n)
        for k in range(n):
            if self.pos < len(self.plan):
                kind = self.plan[self.pos]
                self.pos += 1
            else:
                kind = 'exp'
            if kind == 'zero':
                x = 0.0
            elif kind == 'tiny':
                x = 1e-12
            elif kind == 'small':
                x = 1e-3
            elif kind == 'huge':
                x = 50.0
            elif kind == 'land' and self.length is not None and self.length - self.cum > 0 and scale > 0:
                # the cumulative sum lands (up to rounding) exactly on the end of the interval
                x = (self.length - self.cum) / scale
                kind = 'huge' if x > 10 else 'exp'
            else:
                x = self.rng.expovariate(1.0)
                kind = 'exp'
            self.fired['draw_' + ('tiny' if kind == 'small' else kind)] += 1
            out[k] = x * scale
            self.cum += out[k]
        self.served += n
        if size is None:
            return float(out[0])
        return out.reshape(size)


# ----------------------------------------------------------------------
def generate(prop, rng, tier):
    wp = gen.gen_wp(rng)
    nops = rng.randint(4, 10) if tier == 'quick' else rng.randint(8, 16)
    ops = []
    T = wp['T']
    for _ in range(nops):
        r = rng.random()
        if r < 0.45:
            L = rng.choice([0.5, 1.0, 2.0, 8.0, 40.0])
            rate = rng.choice([0.05, 0.5, 1.0, 5.0, 50.0])
            while rate * L > 400:
                rate /= 10
            t0 = rng.choice([0.0, 0.0, -2.0, 1.5, 100.0])
            scalar = rng.random() < 0.3
            plan = []
            q = rng.random()
            if q < 0.6:
                n = rng.choice([1, 2, 3, 10, 50, 400, 1500])
                for _k in range(n):
                    plan.append(rng.choice(['zero', 'tiny', 'small', 'exp', 'exp', 'huge', 'land'] if n < 20 else
                                           ['zero', 'tiny', 'small', 'zero', 'tiny']))
                if rng.random() < 0.2:
                    plan.append('land')
            ops.append({'op': 'poisson', 'rate': rate, 'interval': L if scalar else [t0, t0 + L],
                        'ity': rng.choice(['float', 'float', 'npfloat', 'int', 'np0d']) if scalar else
                        rng.choice(['list', 'list', 'tuple', 'arr']),
                        'plan': plan, 'dseed': rng.randrange(1 << 30),
                        'twin': rng.random() < 0.3})
        elif r < 0.75:
            ntr = rng.randint(1, 5)
            trains = []
            for _k in range(ntr):
                q = rng.random()
                if q < 0.2:
                    trains.append([])
                elif trains and q < 0.4:
                    trains.append(list(rng.choice(trains)))
                else:
                    trains.append(gen.gen_spikes(rng, wp, nmax=10))
            ops.append({'op': 'merge', 'trains': trains, 'use': [rng.randrange(16) for _k in range(rng.choice([0, 0, 1, 2]))]})
        else:
            ntr = rng.randint(1, 5)
            trains = [gen.gen_spikes(rng, wp, nmax=12) if rng.random() < 0.85 else [] for _k in range(ntr)]
            frac = rng.choice([1.0, 0.5, 1.0 / 3, 1.0 / 7, 0.3, 1.0 / 64, 0.25, 0.9, 0.6,
                               1.0 / rng.randint(1, 120), 1.0 / rng.randint(1, 120), 0.01 + 0.99 * rng.random()])
            ops.append({'op': 'psth', 'trains': trains, 'bin': frac * T,
                        'use': [rng.randrange(16) for _k in range(rng.choice([0, 0, 1]))]})
    return {'swarm': {'wp': wp, 'tier': tier}, 'init': {}, 'ops': ops, 'faults': {}}


def execute(world, run, prop=None):
    prop = prop or run['property']
    rec = Recorder(prop)
    spk = world.spk
    wp = run['swarm']['wp']
    e = gen.edges(wp)
    fired = dict((k, 0) for k in FAULT_KINDS)
    made = []       # Poisson trains generated so far (caller-owned)
    real = np.random.exponential
    try:
        with world.run_context(BackendPlan(()), None):
            for step, op in enumerate(run['ops']):
                rec.step = step
                if op['op'] == 'poisson':
                    _poisson(spk, rec, op, fired, made)
                elif op['op'] == 'merge':
                    _merge(spk, rec, op, e, made)
                else:
                    _psth(spk, rec, op, e, made)
    finally:
        np.random.exponential = real
    return rec, fired


def _poisson(spk, rec, op, fired, made):
    real = np.random.exponential
    outs = []
    for rep in range(2 if op.get('twin') else 1):
        iv = op['interval']
        src = DrawSource(op['plan'], op['dseed'], fired,
                         length=(float(iv[1]) - float(iv[0])) if isinstance(iv, list) else float(iv))
        np.random.exponential = src.exponential
        status = 'ok'
        st = None
        with captured_stdout():
            try:
                ity = op.get('ity', 'list')
                if isinstance(iv, list):
                    arg = tuple(iv) if ity == 'tuple' else np.array(iv, dtype=float) if ity == 'arr' else list(iv)
                else:
                    arg = np.float64(iv) if ity == 'npfloat' else np.array(float(iv)) if ity == 'np0d' else \
                        int(iv) if (ity == 'int' and float(iv) == int(iv)) else float(iv)
                st = spk.generate_poisson_spikes(op['rate'], arg)
            except DrawBudgetExceeded:
                status = 'budget'
            except Exception as ex:
                status = 'exc:' + type(ex).__name__
                err = ex
            finally:
                np.random.exponential = real
        rec.log(('poisson', status, src.served, digest(norm(st))))
        lo, hi = (0.0, float(iv)) if not isinstance(iv, list) else (float(iv[0]), float(iv[1]))
        facts = {'op': 'poisson', 'scalar': not isinstance(iv, list), 'status': status}
        detail = {'op': op, 'draws_served': src.served}
        if any(k != 'exp' for k in op['plan']):
            rec.compared += 1
        if status == 'budget':
            rec.violate('C20.poisson_returns', dict(detail, why="asked for more than %d draws; the served draws had "
                                                    "passed the interval length long before" % DRAW_BUDGET), facts)
            continue
        if status != 'ok':
            rec.violate('C20.poisson_wellformed', dict(detail, why="raised %s" % status), facts)
            continue
        s = [float(t) for t in st.spikes]
        why = None
        if any(a > b for a, b in zip(s, s[1:])):
            why = "spike times not sorted"
        elif any((t < lo or t > hi or t != t) for t in s):
            why = "spike time outside the requested interval [%r, %r]" % (lo, hi)
        elif float(st.t_start) != lo or float(st.t_end) != hi:
            why = "edges (%r, %r), requested (%r, %r)" % (st.t_start, st.t_end, lo, hi)
        if why:
            rec.violate('C20.poisson_wellformed', dict(detail, why=why, train=norm(st)), facts)
        outs.append(st)
        made.append(st)


def _with_used(spk, op, e, made):
    trains = [spk.SpikeTrain(np.array(s, dtype=float), list(e)) for s in op['trains']]
    for u in op.get('use', []):
        if made:
            trains.append(made[u % len(made)])
    return trains


def _merge(spk, rec, op, e, made):
    trains = _with_used(spk, op, e, made)
    before = [(t.spikes.tobytes(), float(t.t_start), float(t.t_end)) for t in trains]
    with captured_stdout():
        try:
            m = spk.merge_spike_trains(trains)
            err = None
        except Exception as ex:
            m, err = None, ex
    rec.log(('merge', norm(m) if err is None else norm(err)))
    rec.compared += 1 if sum(len(t.spikes) for t in trains) else 0
    detail = {'op': op, 'inputs': norm(trains)}
    facts = {'op': 'merge', 'n': len(trains)}
    if err is not None:
        rec.violate('C20.merge_multiset', dict(detail, why="raised %r" % err), facts)
        return
    s = [float(t) for t in m.spikes]
    want = collections.Counter(float(t) for tr in trains for t in tr.spikes)
    why = None
    if any(a > b for a, b in zip(s, s[1:])):
        why = "merged train not sorted"
    elif collections.Counter(s) != want:
        why = "merged spike times are not the multiset union of the inputs (%d vs %d spikes)" % (len(s), sum(want.values()))
    elif float(m.t_start) != float(trains[0].t_start) or float(m.t_end) != float(trains[0].t_end):
        why = "merged train is on (%r, %r), first train on (%r, %r)" % (m.t_start, m.t_end, trains[0].t_start, trains[0].t_end)
    elif [(t.spikes.tobytes(), float(t.t_start), float(t.t_end)) for t in trains] != before:
        why = "an input train was modified"
    if why:
        rec.violate('C20.merge_multiset', dict(detail, why=why, merged=norm(m)), facts)


def _psth(spk, rec, op, e, made):
    trains = _with_used(spk, op, e, made)
    # psth is defined for trains on one recording: use only generated trains on the run's interval
    trains = [t for t in trains if float(t.t_start) == e[0] and float(t.t_end) == e[1]]
    if not trains:
        return
    with captured_stdout():
        try:
            h = spk.psth(trains, op['bin'])
            err = None
        except Exception as ex:
            h, err = None, ex
    rec.log(('psth', norm(h) if err is None else norm(err)))
    allsp = sorted(float(t) for tr in trains for t in tr.spikes)
    rec.compared += 1 if allsp else 0
    detail = {'op': op, 'edges': e, 'spikes': allsp}
    facts = {'op': 'psth'}
    if err is not None:
        rec.violate('C20.psth_counts', dict(detail, why="raised %r" % err), facts)
        return
    why = None
    if type(h).__name__ != 'PieceWiseConstFunc':
        why = "returned %s" % type(h).__name__
    else:
        x = [float(v) for v in h.x]
        y = [float(v) for v in h.y]
        T = e[1] - e[0]
        if len(x) < 2 or len(y) != len(x) - 1:
            why = "malformed: %d edges, %d values" % (len(x), len(y))
        elif x[0] != e[0] or x[-1] != e[1]:
            why = "bins span %r..%r, recording is %r..%r" % (x[0], x[-1], e[0], e[1])
        else:
            w = [b - a for a, b in zip(x, x[1:])]
            if any(not close(v, w[0], 1e-9) or v <= 0 for v in w):
                why = "bins are not equally wide: %r" % w[:6]
            else:
                inside = [t for t in allsp if e[0] <= t <= e[1]]
                if not close(sum(y), len(inside), 1e-12):
                    why = "bin values sum to %r, %d spikes lie inside the recording" % (sum(y), len(inside))
                else:
                    for k in range(len(y)):
                        lo, hi = x[k], x[k + 1]
                        n_open = sum(1 for t in inside if lo < t < hi)
                        n_closed = sum(1 for t in inside if lo <= t <= hi)
                        if not (n_open <= y[k] <= n_closed) or y[k] != int(y[k]):
                            why = "bin [%r, %r] holds %r, spikes inside: %d (open) .. %d (closed)" % (lo, hi, y[k], n_open, n_closed)
                            break
    if why:
        rec.violate('C20.psth_counts', dict(detail, why=why, psth=norm(h)), facts)


def signature(run):
    ops = [(o['op'], tuple(sorted(set(o.get('plan', [])))), len(o.get('plan', [])),
            tuple(sorted(len(t) for t in o.get('trains', [])))) for o in run['ops']]
    return digest(ops)


def simplify(run):
    for oi, o in enumerate(run['ops']):
        if o['op'] == 'poisson':
            if o['plan']:
                r = json.loads(json.dumps(run))
                r['ops'][oi]['plan'] = o['plan'][:len(o['plan']) // 2]
                yield r
                for k in range(len(o['plan'])):
                    if o['plan'][k] != 'exp':
                        r = json.loads(json.dumps(run))
                        r['ops'][oi]['plan'][k] = 'exp'
                        yield r
                        if k > 30:
                            break
            if o.get('twin'):
                r = json.loads(json.dumps(run))
                r['ops'][oi]['twin'] = False
                yield r
        if 'trains' in o:
            for ti in range(len(o['trains'])):
                if len(o['trains']) > 1:
                    r = json.loads(json.dumps(run))
                    del r['ops'][oi]['trains'][ti]
                    yield r
                for k in range(len(o['trains'][ti])):
                    r = json.loads(json.dumps(run))
                    del r['ops'][oi]['trains'][ti][k]
                    yield r
        if o.get('use'):
            r = json.loads(json.dumps(run))
            r['ops'][oi]['use'] = []
            yield r


def vary(run, rng):
    ops = run['ops']
    wp = run['swarm']['wp']
    if not ops or rng.random() < 0.3:
        return
    for _ in range(rng.randint(1, 3)):
        k = rng.randrange(len(ops))
        o = json.loads(json.dumps(ops[k]))
        if o['op'] == 'psth':
            o['trains'] = [gen.gen_spikes(rng, wp, nmax=12) for _t in o['trains']]
        elif o['op'] == 'poisson':
            o['dseed'] = rng.randrange(1 << 30)
        ops.insert(rng.randint(k + 1, len(ops)), o)


def shape(run):
    return digest(sorted(set((o['op'], tuple(sorted(set(o.get('plan', [])))), isinstance(o.get('interval'), list))
                             for o in run['ops'])))
