"""`backend` machine (DESIGN.md 4.1), serves C12.

Fault space: which of the extension modules are "built" (16 static subsets) and,
in half of the runs, per-import flips.  Oracle: shadow differential at the seam -
every routine invocation made by real PySpike code is also run through the
routine's twin from the other backend on copies of the same arguments."""
import numpy as np

from ..core import Recorder, norm, same_norm, digest
from ..world import BackendPlan, PLANNABLE, ALL_COMPILED, captured_stdout
from .. import gen
from . import api

MACHINE = 'backend'
FAULT_KINDS = ('import_fail', 'import_ok', 'import_flip')
ASSUMPTIONS = [
    "the compiled routine of each pair is the lowered .pyx stand-in (same statements, IEEE doubles, C boxing of "
    "return values); a disagreement that needs C int overflow or an out-of-bounds read to show is out of reach",
    "routine results compared structurally: equal lengths, every number within 1e-9 relative/absolute",
]
RULE = {'*': "a run = a pool of valid trains + one static subset of built extension modules (16 buildable subsets) "
             "+ optional per-import flips + 6-30 operations: public calls (every routine is shadowed by its twin on "
             "the argument tuples real calling code produces), direct twin calls on generated argument tuples "
             "(get_tau with i/j = -1, the three add routines, profile and single-pass kernels) and end-to-end "
             "all-built vs none-built comparisons. Non-trivial: at least one twin comparison was made; distinct = "
             "distinct (built subset, flips used?, spike-count multiset, tie flag, edge flag, operation multiset)."}


def required_fired(prop):
    return ('import_fail', 'import_ok', 'import_flip')


# (module short, routine) -> (twin module short, twin routine or composite id)
DIRECT_TWINS = [
    ('cython_profiles', 'isi_profile_cython', 'python_backend', 'isi_distance_python'),
    ('cython_profiles', 'spike_profile_cython', 'python_backend', 'spike_distance_python'),
    ('cython_profiles', 'coincidence_profile_cython', 'python_backend', 'coincidence_python'),
    ('cython_profiles', 'coincidence_single_profile_cython', 'python_backend', 'coincidence_single_python'),
    ('cython_add', 'add_piece_wise_const_cython', 'python_backend', 'add_piece_wise_const_python'),
    ('cython_add', 'add_piece_wise_lin_cython', 'python_backend', 'add_piece_wise_lin_python'),
    ('cython_add', 'add_discrete_function_cython', 'python_backend', 'add_discrete_function_python'),
    ('cython_directionality', 'spike_train_order_profile_cython', 'directionality_python_backend',
     'spike_train_order_profile_python'),
    ('cython_directionality', 'spike_directionality_profiles_cython', 'directionality_python_backend',
     'spike_directionality_profile_python'),
    ('cython_get_tau', 'get_tau', 'python_backend', 'get_tau'),
]
SINGLE_PASS = ['isi_distance_cython', 'spike_distance_cython', 'coincidence_value_cython',
               'spike_train_order_cython', 'spike_directionality_cython']


def _raw(world, short, name):
    mod = world.compiled.get(short) or world.pyb.get(short)
    return getattr(mod, name)


def composite_twin(world, name):
    spk = world.spk
    pb = world.pyb['python_backend']
    dpb = world.pyb['directionality_python_backend']
    if name == 'isi_distance_cython':
        return lambda *a: spk.PieceWiseConstFunc(*pb.isi_distance_python(*a)).avrg()
    if name == 'spike_distance_cython':
        return lambda *a: spk.PieceWiseLinFunc(*pb.spike_distance_python(*a)).avrg()
    if name == 'coincidence_value_cython':
        return lambda *a: spk.DiscreteFunc(*pb.coincidence_python(*a)).integral()
    if name == 'spike_train_order_cython':
        return lambda *a: spk.DiscreteFunc(*dpb.spike_train_order_profile_python(*a)).integral()
    if name == 'spike_directionality_cython':
        return lambda *a: np.sum(dpb.spike_directionality_profile_python(*a)[0])
    raise KeyError(name)


def _copy_args(args):
    out = []
    for a in args:
        if isinstance(a, np.ndarray):
            out.append(a.copy())
        else:
            out.append(a)
    return out


def _call(f, args):
    with captured_stdout():
        try:
            return 'ok', f(*args)
        except Exception as e:   # noqa
            return 'exc', e


def compare_twins(rec, label, f1, f2, args, via, originals_to=1):
    # the scheduled routine receives the caller's own argument objects, exactly as the real
    # calling code passes them (a routine that remembers something about an array it has seen
    # before meets that array again); the twin works on copies
    before = _copy_args(args)
    if originals_to == 1:
        a1, a2 = list(args), _copy_args(args)
    else:
        a1, a2 = _copy_args(args), list(args)
    s1, r1 = _call(f1, a1)
    s2, r2 = _call(f2, a2)
    for u, v in zip(before, args):
        if isinstance(u, np.ndarray) and (u.shape != v.shape or u.tobytes() != v.tobytes()):
            v[...] = u      # keep the caller's data intact for the rest of the run (mutation is C13's business)
    rec.compared += 1
    rec.probe('twin:' + label)
    n1, n2 = norm(r1), norm(r2)
    if s1 != s2 or (s1 == 'ok' and not same_norm(n1, n2)):
        rec.violate('C12.twin_disagree',
                    {'routine': label, 'via': via, 'args': norm(list(args)),
                     'scheduled': n1, 'twin': n2, 'status': [s1, s2]},
                    {'routine': label, 'via': via, 'status_a': s1, 'status_b': s2})
    return s1, r1


class Shadow(object):
    """proxy modules whose routines run their twin alongside"""

    def __init__(self, world, rec):
        self.world = world
        self.rec = rec
        self.cache = {}
        self.table = {}
        for cs, cn, ps, pn in DIRECT_TWINS:
            self.table[(cs, cn)] = (_raw(world, cs, cn), _raw(world, ps, pn), cn)
            self.table[(ps, pn)] = (_raw(world, ps, pn), _raw(world, cs, cn), cn)
        for cn in SINGLE_PASS:
            short = 'cython_distances' if cn in SINGLE_PASS[:3] else 'cython_directionality'
            self.table[(short, cn)] = (_raw(world, short, cn), composite_twin(world, cn), cn)
        self.current_op = None

    def wrap(self, short, mod):
        if short in self.cache:
            return self.cache[short]
        shadow = self

        class Proxy(object):
            def __getattr__(self_, name):
                key = (short, name)
                if key in shadow.table:
                    f1, f2, label = shadow.table[key]

                    def wrapped(*args):
                        s, r = compare_twins(shadow.rec, label, f1, f2, args, 'public call')
                        if s == 'exc':
                            raise r
                        return r
                    return wrapped
                return getattr(mod, name)
        p = Proxy()
        self.cache[short] = p
        return p


# ----------------------------------------------------------------------
def generate(prop, rng, tier):
    wp = gen.gen_wp(rng)
    e = gen.edges(wp)
    big = tier == 'thorough' and rng.random() < 0.4
    pool = gen.gen_degenerate_pool(rng, wp) if rng.random() < 0.3 else \
        gen.gen_pool(rng, wp, nmax=8 if big else 6, nspk=14 if big else 8,
                     long_p=0.03 if tier == 'thorough' else 0.012)
    specs = [{'s': s, 'e': list(e)} for s in pool]
    nops = rng.randint(6, 14) if tier == 'quick' else rng.randint(10, 30)
    subset = [m for m in PLANNABLE if rng.random() < 0.5]
    r = rng.random()
    if r < 0.15:
        subset = list(PLANNABLE)
    elif r < 0.3:
        subset = []
    flips = []
    if rng.random() < 0.5:
        p = rng.choice([0.1, 0.3, 0.5])
        flips = [1 if rng.random() < p else 0 for _ in range(rng.choice([20, 100, 400]))]
    ops = []
    for _ in range(nops):
        q = rng.random()
        if q < 0.50:
            ops.append(api._gen_call(rng, wp, pool, allow_auto=True, no_reconcile=True))
        elif q < 0.56:
            k = rng.randrange(len(pool))
            ops.append({'op': 'mutate', 'i': k,
                        's': gen.gen_spikes(rng, wp, n=len(pool[k]) if rng.random() < 0.7 else None)})
        elif q < 0.65:
            c = api._gen_call(rng, wp, pool, no_reconcile=True)
            c['op'] = 'e2e'
            # calls made earlier in the same (fresh) process of each configuration
            c['prelude'] = [api._gen_call(rng, wp, pool, no_reconcile=True) for _k in range(rng.choice([0, 1, 2]))]
            ops.append(c)
        else:
            ops.append(_gen_direct(rng, wp, pool))
    audit = rng.random() < 0.25
    return {'swarm': {'wp': wp, 'tier': tier, 'built': sorted(subset), 'audit': audit,
                      'fail_exc': 'ImportError' if rng.random() < 0.25 else 'ModuleNotFoundError'}, 'init': {'pool': specs}, 'ops': ops,
            'faults': {'flips': flips}}


def _gen_pw(rng, wp, kind):
    """random piecewise function arrays on the common interval"""
    t0, t1 = gen.edges(wp)
    n = rng.choice([1, 1, 2, 3, 4, 7])
    xs = set()
    while len(xs) < n - 1:
        t = gen.gen_time(rng, wp)
        if t0 < t < t1:
            xs.add(t)
        elif rng.random() < 0.2:
            break
    x = [t0] + sorted(xs) + [t1]

    def val():
        return rng.randrange(-32, 33) / 8.0
    if kind == 'pwc':
        return [x, [val() for _ in range(len(x) - 1)]]
    if kind == 'pwl':
        return [x, [val() for _ in range(len(x) - 1)], [val() for _ in range(len(x) - 1)]]
    # discrete: events may sit on the edges; edge entries framing
    ne = rng.choice([0, 0, 1, 2, 3, 6])
    ev = set()
    for _ in range(ne):
        r = rng.random()
        ev.add(t0 if r < 0.1 else t1 if r < 0.2 else gen.gen_time(rng, wp))
    ev = sorted(ev)
    mp = [float(rng.choice([1, 1, 2, 3])) for _ in ev]
    y = [float(rng.randrange(-3, 4)) for _ in ev]
    xs = [t0] + ev + [t1]
    if ev:
        ys = [y[0]] + y + [y[-1]]
        mps = [mp[0]] + mp + [mp[-1]]
    else:
        ys = [1.0, 1.0] if rng.random() < 0.5 else [0.0, 0.0]
        mps = [1.0, 1.0]
    return [xs, ys, mps]


def _gen_direct(rng, wp, pool):
    r = rng.random()
    T = wp['T']
    num_mrts = rng.choice([0.0, 0.0, T / 32, T / 4, T, 3 * T])
    max_tau = rng.choice([0.0, 0.0, T / 32, T / 8, T, 3 * T])
    if r < 0.3:
        kind = rng.choice(['pwc', 'pwl', 'disc'])
        return {'op': 'direct', 'what': 'add_' + kind, 'a': _gen_pw(rng, wp, kind), 'b': _gen_pw(rng, wp, kind)}
    sel = gen.gen_sel(rng, len(pool), 2, 2)
    if r < 0.5:
        n1, n2 = len(pool[sel[0]]), len(pool[sel[1]])
        i = rng.randint(-1, n1 - 1)
        j = rng.randint(-1, n2 - 1)
        if i < 0 and j < 0:
            if n1:
                i = 0
            elif n2:
                j = 0
        lim = rng.choice([T, T, 2 * max_tau if max_tau > 0 else T])
        return {'op': 'direct', 'what': 'get_tau', 'sel': sel, 'i': i, 'j': j, 'max_tau': lim, 'MRTS': num_mrts}
    what = rng.choice(['isi_profile', 'spike_profile', 'coincidence_profile', 'coincidence_single',
                       'order_profile', 'dir_profiles', 'isi_distance', 'spike_distance', 'coincidence_value',
                       'spike_train_order', 'spike_directionality'])
    return {'op': 'direct', 'what': what, 'sel': sel, 'MRTS': num_mrts, 'max_tau': max_tau,
            'RI': rng.choice([0, 1, False, True]), 'orig': rng.choice([1, 2])}


# ----------------------------------------------------------------------
def execute(world, run, prop=None):
    prop = prop or run['property']
    rec = Recorder(prop)
    spk = world.spk
    specs = [dict(sp) for sp in run['init']['pool']]
    events = []
    plan = BackendPlan(run['swarm']['built'], run['faults'].get('flips'),
                       fail_exc=run['swarm'].get('fail_exc', 'ModuleNotFoundError'))
    shadow = Shadow(world, rec)
    from .. import _rt
    _rt.AUDIT[0] = bool(run['swarm'].get('audit'))
    if _rt.AUDIT[0]:
        rec.probe('bounds_audit_run')
    try:
        with world.run_context(plan, events, shadow):
            pool = api.make_trains(spk, specs)
            for step, op in enumerate(run['ops']):
                rec.step = step
                _exec_op(world, spk, rec, run, op, pool, specs, plan, events, shadow)
    finally:
        _rt.AUDIT[0] = False
    fired = dict(plan.fired)
    rec.log(('events', len(events), digest(events)))
    return rec, fired


def _exec_op(world, spk, rec, run, op, pool, specs, plan, events, shadow):
    if op['op'] == 'mutate':
        # the caller edits one of its (valid) trains between calls, in place when the length allows
        i = op['i'] % len(pool)
        new = np.array(op['s'], dtype=float)
        if len(new) == len(pool[i].spikes):
            pool[i].spikes[...] = new
        else:
            pool[i].spikes = new
        specs[i] = {'s': list(op['s']), 'e': specs[i]['e']}
        rec.log(('mutate', i))
    elif op['op'] == 'call':
        st, r = api.try_invoke(spk, pool, op['fn'], op['form'], op['sel'], op['kw'])
        rec.log(('call', op['fn'], op['form'], st, digest(norm(r))))
        if st == 'exc' and isinstance(r, ImportError):
            rec.violate('C12.silent_fallback', {'op': op, 'exception': norm(r),
                                                'built': run['swarm']['built']},
                        {'fn': op['fn']})
    elif op['op'] == 'e2e':
        _op_e2e(world, spk, rec, op, pool, specs, plan, events, shadow)
    else:
        _op_direct(world, spk, rec, op, pool, specs)


def _op_e2e(world, spk, rec, op, pool, specs, plan, events, shadow):
    """the same public call with every extension built and with none: same result"""
    res = []
    configs = [tuple(ALL_COMPILED), ()]
    part = tuple(sorted(plan.available - {'cython_get_tau'}))
    if part and set(part) != set(ALL_COMPILED):
        configs.append(part)     # the run's own partial build must agree as well
    # every configuration is a different installation, i.e. a different process: each starts from
    # the module state PySpike has right after import, runs the same short call sequence, and the
    # run's own module state is put back afterwards
    saved = world.snapshot_state(assign=False)
    try:
        for built in configs:
            world.reset_state()
            world.plan = BackendPlan(built, fail_exc=getattr(plan, 'fail_exc', 'ModuleNotFoundError'))
            world.shadow = None
            try:
                for pre in op.get('prelude', []):
                    if all(i < len(pool) for i in pre['sel']):
                        api.try_invoke(spk, pool, pre['fn'], pre['form'], pre['sel'], pre['kw'])
                st, r = api.try_invoke(spk, pool, op['fn'], op['form'], op['sel'], op['kw'])
            finally:
                world.plan = plan
                world.shadow = shadow
            res.append((st, norm(r)))
    finally:
        world.reset_state(saved)
    rec.log(('e2e', op['fn'], [(r[0], digest(r[1])) for r in res]))
    rec.compared += 1
    (s1, n1) = res[0]
    for k in range(1, len(res)):
        (s2, n2) = res[k]
        if s2 == 'exc' and n2.get('exc') in ('ImportError', 'ModuleNotFoundError'):
            rec.violate('C12.silent_fallback', {'op': op, 'exception': n2, 'built': list(configs[k])},
                        {'fn': op['fn']})
            return
        if s1 != s2 or (s1 == 'ok' and not same_norm(n1, n2)) or (s1 == 'exc' and n1.get('exc') != n2.get('exc')):
            rec.violate('C12.fallback_same_result',
                        {'op': op, 'trains': [specs[i]['s'] for i in op['sel']], 'edges': specs[0]['e'],
                         'all_built': n1, 'other_build': list(configs[k]), 'other_result': n2},
                        {'fn': op['fn'], 'form': op['form'], 'status_a': s1, 'status_b': s2,
                         'partial': bool(configs[k])})
            return


def _aux(spk, st):
    return np.array(st.get_spikes_non_empty(), dtype=float)


def _op_direct(world, spk, rec, op, pool, specs):
    what = op['what']
    C = world.compiled
    pb = world.pyb['python_backend']
    dpb = world.pyb['directionality_python_backend']
    if what.startswith('add_'):
        kind = what[4:]
        a = [np.array(v, dtype=float) for v in op['a']]
        b = [np.array(v, dtype=float) for v in op['b']]
        name = {'pwc': 'add_piece_wise_const', 'pwl': 'add_piece_wise_lin', 'disc': 'add_discrete_function'}[kind]
        f1 = getattr(C['cython_add'], name + '_cython')
        f2 = getattr(pb, name + '_python')
        compare_twins(rec, name + '_cython', f1, f2, a + b, 'direct')
        rec.log(('direct', what))
        return
    a, b = pool[op['sel'][0]], pool[op['sel'][1]]
    t0, t1 = float(a.t_start), float(a.t_end)
    if what == 'get_tau':
        s1, s2 = a.spikes, b.spikes
        i, j = op['i'], op['j']
        if (i >= len(s1)) or (j >= len(s2)) or (i < 0 and j < 0):
            return
        compare_twins(rec, 'get_tau', C['cython_get_tau'].get_tau, pb.get_tau,
                      [s1, s2, i, j, op['max_tau'], op['MRTS']], 'direct')
        rec.log(('direct', what))
        return
    M, mt, RI = op['MRTS'], op['max_tau'], op['RI']
    table = {
        'isi_profile': (C['cython_profiles'].isi_profile_cython, pb.isi_distance_python,
                        [_aux(spk, a), _aux(spk, b), t0, t1, M], 'isi_profile_cython'),
        'spike_profile': (C['cython_profiles'].spike_profile_cython, pb.spike_distance_python,
                          [_aux(spk, a), _aux(spk, b), t0, t1, M, RI], 'spike_profile_cython'),
        'coincidence_profile': (C['cython_profiles'].coincidence_profile_cython, pb.coincidence_python,
                                [a.spikes, b.spikes, t0, t1, mt, M], 'coincidence_profile_cython'),
        'coincidence_single': (C['cython_profiles'].coincidence_single_profile_cython,
                               pb.coincidence_single_python,
                               [a.spikes, b.spikes, t0, t1, mt, M], 'coincidence_single_profile_cython'),
        'order_profile': (C['cython_directionality'].spike_train_order_profile_cython,
                          dpb.spike_train_order_profile_python,
                          [a.spikes, b.spikes, t0, t1, mt, M], 'spike_train_order_profile_cython'),
        'dir_profiles': (C['cython_directionality'].spike_directionality_profiles_cython,
                         dpb.spike_directionality_profile_python,
                         [a.spikes, b.spikes, t0, t1, mt, M], 'spike_directionality_profiles_cython'),
        'isi_distance': (C['cython_distances'].isi_distance_cython, composite_twin(world, 'isi_distance_cython'),
                         [_aux(spk, a), _aux(spk, b), t0, t1, M], 'isi_distance_cython'),
        'spike_distance': (C['cython_distances'].spike_distance_cython,
                           composite_twin(world, 'spike_distance_cython'),
                           [_aux(spk, a), _aux(spk, b), t0, t1, M, RI], 'spike_distance_cython'),
        'coincidence_value': (C['cython_distances'].coincidence_value_cython,
                              composite_twin(world, 'coincidence_value_cython'),
                              [a.spikes, b.spikes, t0, t1, mt, M], 'coincidence_value_cython'),
        'spike_train_order': (C['cython_directionality'].spike_train_order_cython,
                              composite_twin(world, 'spike_train_order_cython'),
                              [a.spikes, b.spikes, t0, t1, mt, M], 'spike_train_order_cython'),
        'spike_directionality': (C['cython_directionality'].spike_directionality_cython,
                                 composite_twin(world, 'spike_directionality_cython'),
                                 [a.spikes, b.spikes, t0, t1, mt, M], 'spike_directionality_cython'),
    }
    f1, f2, args, label = table[what]
    compare_twins(rec, label, f1, f2, args, 'direct', originals_to=op.get('orig', 1))
    rec.log(('direct', what))


def signature(run):
    specs = run['init']['pool']
    counts = sorted(len(sp['s']) for sp in specs)
    allt = [t for sp in specs for t in sp['s']]
    ties = len(allt) != len(set(allt))
    e = specs[0]['e']
    edge = any(t in (e[0], e[1]) for t in allt)
    ops = sorted((o['op'], o.get('fn', o.get('what', '')), o.get('form', '')) for o in run['ops'])
    return digest([run['swarm']['built'], bool(run['faults'].get('flips')), counts, ties, edge, ops])


def simplify(run):
    import json
    # fault plan first: no flips, then fewer flips, then flips -> 0
    fl = run['faults'].get('flips') or []
    if fl:
        r = json.loads(json.dumps(run))
        r['faults']['flips'] = []
        yield r
        r = json.loads(json.dumps(run))
        r['faults']['flips'] = fl[:len(fl) // 2]
        yield r
        for k, b in enumerate(fl):
            if b:
                r = json.loads(json.dumps(run))
                r['faults']['flips'][k] = 0
                yield r
    built = run['swarm']['built']
    for k in range(len(built)):
        r = json.loads(json.dumps(run))
        del r['swarm']['built'][k]
        yield r
    for r in api.simplify(run):
        yield r
    for oi, o in enumerate(run['ops']):
        for k in range(len(o.get('prelude', []))):
            r = json.loads(json.dumps(run))
            del r['ops'][oi]['prelude'][k]
            yield r
    # direct ops: drop pieces of generated functions is not attempted; snap MRTS/max_tau to 0
    for oi, o in enumerate(run['ops']):
        if o['op'] == 'direct':
            for key in ('MRTS', 'max_tau', 'RI'):
                if o.get(key):
                    r = json.loads(json.dumps(run))
                    r['ops'][oi][key] = 0.0 if key != 'RI' else 0
                    yield r


def vary(run, rng):
    ops = run['ops']
    T = run['swarm']['wp']['T']
    if not ops or rng.random() < 0.4:
        return
    import json as _json
    for _ in range(rng.randint(1, 3)):
        k = rng.randrange(len(ops))
        o = _json.loads(_json.dumps(ops[k]))
        if o['op'] == 'direct':
            if 'MRTS' in o and rng.random() < 0.5:
                o['MRTS'] = rng.choice([0.0, T / 32, T / 4, T])
        else:
            kw = o.get('kw', {})
            for key in ('MRTS', 'max_tau'):
                if key in kw and rng.random() < 0.4:
                    kw[key] = rng.choice([0.0, T / 32, T / 4, T])
        ops.insert(rng.randint(k + 1, len(ops)), o)


def shape(run):
    specs = run['init']['pool']
    counts = [len(sp['s']) for sp in specs]
    kinds = sorted(set((o['op'], o.get('what', '')) for o in run['ops']))
    return digest([run['swarm']['built'], bool(run['faults'].get('flips')), bool(run['swarm'].get('audit')),
                   len(counts), sum(1 for c in counts if c == 0), sum(1 for c in counts if c == 1), kinds])
