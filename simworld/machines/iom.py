"""`io` machine (DESIGN.md 4.4), serves C19: text save/load over a simulated raw
device with short reads/writes, EIO/ENOSPC, failing close, crash before close,
small buffers and both newline conventions; string / time-series / scalar-edge
constructors ride along fault-free."""
import decimal
import errno
import json
import os
import shutil
import tempfile

import numpy as np

from ..core import Recorder, norm, digest
from ..world import BackendPlan, captured_stdout
from ..simfs import SimFS, IOPlan, SimCrash
from .. import gen

MACHINE = 'iom'
FAULT_KINDS = ('short_write', 'short_read', 'write_error', 'read_error', 'close_error', 'open_error', 'crash')
ASSUMPTIONS = [
    "the raw file layer is simulated; io.TextIOWrapper / io.BufferedWriter / io.BufferedReader above it are CPython's own",
    "an operation that raises claims nothing; a path whose save raised or crashed is 'unknown' until rewritten; "
    "a save or load that RETURNS NORMALLY is held to the full round-trip oracle even if faults were injected inside it",
    "spike times are compared to half a unit of the last printed digit, and bit-identically at precision >= 17",
    "time-series import reads a real temporary file (np.loadtxt opens the path itself); no faults are injected there",
]
RULE = {'*': "a run = one simulated disk, per-run knobs (buffer size, text chunk size, write_through, platform newline) "
             "and 6-30 operations: save (separators ' ', ';', ', ', tab; precisions 1..20; empty trains), load (pair and "
             "scalar edges, comment chars, is_sorted, ignore_empty_lines), hand-written files (comments, unsorted and "
             "blank lines, CRLF, missing trailing newline), crash during save, spike_train_from_string, time-series "
             "import, scalar-edge constructor; 25% of runs fault-free, otherwise a fault decision per raw call. "
             "Non-trivial: at least one load of an acknowledged or hand-written file was compared, or a fault fired "
             "inside a save/load; distinct = distinct (knobs, operation sequence with formats, fired fault kinds)."}


def required_fired(prop):
    return FAULT_KINDS


SEPS = [' ', ' ', ';', ', ', '\t', ',']
COMMENTS = ['#', '#', '%', '//', '!', '*', '.', '$', '|', '+', '(', '[', '^']   # any string may be the comment marker

_TMP = [None]


def _tmpdir():
    if _TMP[0] is None or not os.path.isdir(_TMP[0]):
        _TMP[0] = tempfile.mkdtemp(prefix='simworld-ts-')
        import atexit
        atexit.register(shutil.rmtree, _TMP[0], True)
    return _TMP[0]


# ----------------------------------------------------------------------
def _gen_decisions(rng, n, p):
    out = []
    for _ in range(n):
        if rng.random() >= p:
            out.append(['ok'])
            continue
        k = rng.random()
        if k < 0.4:
            out.append(['short', rng.random()])
        elif k < 0.7:
            out.append(['err', rng.choice([errno.EIO, errno.ENOSPC, errno.EACCES])])
        else:
            out.append(['short', rng.choice([0.0, 0.5, 0.99])])
    return out


SWEEP = 96      # raw-call positions enumerated per base workload in the thorough tier


def generate(prop, rng, tier):
    idx = getattr(rng, 'run_index', None)
    if tier == 'thorough' and idx is not None and (idx // SWEEP) % 3 == 0:
        # systematic single-fault sweep: SWEEP consecutive run indices share one fault-free base
        # workload (generated from a seed of their common block) and differ only in the raw-call
        # position at which the single fault is placed: position = idx % SWEEP, kind cycling with the block
        from ..core import rng_for
        base = rng_for(getattr(rng, 'verif_seed', 0), prop, MACHINE + ':sweep', idx // SWEEP)
        run = _generate(prop, base, tier, force_fault_free=True)
        k = idx % SWEEP
        kinds = [['short', 0.0], ['short', 0.5], ['err', errno.EIO], ['err', errno.ENOSPC], ['crash', 0.5], ['crash', 0.0]]
        run['faults']['io'] = [['ok']] * k + [kinds[(idx // SWEEP // 3) % len(kinds)]]
        run['swarm']['faulty'] = True
        run['swarm']['sweep'] = {'block': idx // SWEEP, 'position': k}
        return run
    return _generate(prop, rng, tier)


def _generate(prop, rng, tier, force_fault_free=False):
    wp = gen.gen_wp(rng)
    nops = rng.randint(6, 14) if tier == 'quick' else rng.randint(10, 30)
    knobs = {'buffer_size': rng.choice([1, 7, 16, 64, 512, 8192]),
             'chunk': rng.choice([1, 5, 32, 8192]),
             'write_through': rng.random() < 0.5,
             'linesep': rng.choice(['\n', '\n', '\r\n'])}
    faulty = rng.random() >= 0.25 and not force_fault_free
    p = rng.choice([0.02, 0.05, 0.15]) if faulty else 0.0
    decisions = _gen_decisions(rng, rng.choice([50, 300, 1500]), p) if faulty else []
    if faulty and rng.random() < 0.4:
        # exactly one fault, at a uniformly chosen raw-call position (the sampled counterpart of a
        # systematic single-fault sweep: every position of the first ~120 raw calls gets its turn)
        k = rng.randrange(0, rng.choice([12, 40, 120]))
        decisions = [['ok']] * k + _gen_decisions(rng, 1, 1.0)
    e = gen.edges(wp)
    ops = []
    paths = ['/simfs/a.txt', '/simfs/b.txt', '/simfs/c.txt']
    for _ in range(nops):
        r = rng.random()
        path = rng.choice(paths)
        if r < 0.27:
            ntr = rng.randint(1, 6)
            trains = [gen.gen_spikes(rng, wp, nmax=10) for _ in range(ntr)]
            if rng.random() < 0.01:
                # scale: one train of several hundred spikes (block-wise writers, long lines)
                trains[rng.randrange(ntr)] = sorted(set(e[0] + rng.random() * wp['T'] for _k in range(rng.randint(513, 700))))
            ops.append({'op': 'save', 'path': path, 'trains': trains, 'sep': rng.choice(SEPS),
                        'prec': rng.choice([8, 8, 1, 2, 3, 5, 12, 16, 17, 17, 18, 20]),
                        'defaults': rng.random() < 0.2})
        elif r < 0.60:
            ops.append({'op': 'load', 'path': path, 'match': rng.random() < 0.9,
                        'sep': rng.choice(SEPS), 'comment': rng.choice(COMMENTS),
                        'is_sorted': rng.random() < 0.3, 'ignore_empty': rng.random() < 0.5,
                        'scalar_edge': rng.random() < 0.25})
        elif r < 0.72:
            sep = rng.choice(SEPS)
            com = rng.choice(COMMENTS)
            lines = []
            for _k in range(rng.randint(0, 7)):
                q = rng.random()
                if q < 0.2:
                    lines.append({'k': 'comment', 'text': com + rng.choice([' spikes', '', ' 1.0 2.0', '#'])})
                elif q < 0.35:
                    lines.append({'k': 'blank'})
                else:
                    s = gen.gen_spikes(rng, wp, nmax=8)
                    if rng.random() < 0.5:
                        rng.shuffle(s)
                    lines.append({'k': 'data', 's': s})
            ops.append({'op': 'hand', 'path': path, 'lines': lines, 'sep': sep, 'comment': com,
                        'nl': rng.choice(['\n', '\n', '\r\n']), 'trailing': rng.random() < 0.8})
        elif r < 0.80:
            ntr = rng.randint(1, 4)
            trains = [gen.gen_spikes(rng, wp, nmax=10) for _ in range(ntr)]
            ops.append({'op': 'crashsave', 'path': path, 'trains': trains, 'sep': ' ', 'prec': 8,
                        'at': rng.randint(0, 12), 'keep': rng.choice([0.0, 0.5, 1.0])})
        elif r < 0.87:
            s = gen.gen_spikes(rng, wp, nmax=8)
            if rng.random() < 0.5:
                rng.shuffle(s)
            ops.append({'op': 'fromstr', 's': s, 'sep': rng.choice(SEPS), 'is_sorted': rng.random() < 0.3,
                        'scalar_edge': rng.random() < 0.3})
        elif r < 0.95:
            rows, cols = rng.randint(1, 5), rng.randint(1, 12)
            mat = [[1 if rng.random() < 0.35 else 0 for _c in range(cols)] for _r in range(rows)]
            ops.append({'op': 'tseries', 'mat': mat, 'start': rng.choice([0.0, -2.0, 1.5, 100.0, 0.1, 0.3]),
                        'bin': rng.choice([1.0, 0.5, 0.25, 2.0, 0.125, 0.1, 0.001, 0.3, 0.7, round(rng.random(), 3) + 0.001]),
                        'sep': rng.choice([None, None, ',']),
                        'comment': rng.random() < 0.3, 'as_float': rng.random() < 0.3})
        else:
            ops.append({'op': 'ctor', 's': gen.gen_spikes(rng, wp), 'edge': rng.choice([4.0, 10.0, 250.0, 1.5]),
                        'form': rng.choice(['float', 'int', 'pair', 'nparr'])})
    return {'swarm': {'wp': wp, 'tier': tier, 'knobs': knobs, 'faulty': faulty}, 'init': {}, 'ops': ops,
            'faults': {'io': decisions}}


# ----------------------------------------------------------------------
def _half_unit(orig, p):
    """half a unit of the last digit that '%.{p}e' prints for orig"""
    if orig == 0.0:
        return 0.0
    d = decimal.Decimal(orig)
    exp = d.adjusted()
    return float(decimal.Decimal(5) * decimal.Decimal(10) ** (exp - p - 1))


def _times_ok(loaded, orig, prec):
    if len(loaded) != len(orig):
        return "spike count %d, saved %d" % (len(loaded), len(orig))
    for a, b in zip(loaded, orig):
        a = float(a)
        if prec >= 17:
            if a != b:
                return "time %r loaded as %r at precision %d (must be bit-identical)" % (b, a, prec)
        else:
            tol = _half_unit(b, prec) * (1 + 1e-9) + abs(b) * 2.3e-16
            if not abs(a - b) <= tol:
                return "time %r loaded as %r, more than half a unit of digit %d away" % (b, a, prec + 1)
    return None


def execute(world, run, prop=None):
    prop = prop or run['property']
    rec = Recorder(prop)
    spk = world.spk
    mod = __import__('sys').modules['pyspike.spikes']
    wp = run['swarm']['wp']
    e = gen.edges(wp)
    kn = run['swarm']['knobs']
    plan = IOPlan(run['faults'].get('io'))
    fs = SimFS(plan, kn['buffer_size'], kn['chunk'], kn['write_through'], kn['linesep'])
    acked = {}     # path -> {'trains', 'sep', 'prec'}  (save returned normally)
    hand = {}      # path -> {'expected': [...], 'sep', 'comment'}
    bplan = BackendPlan(())
    fs.install()
    try:
        with world.run_context(bplan, None):
            for step, op in enumerate(run['ops']):
                rec.step = step
                before = dict(plan.fired)
                _exec(spk, rec, op, fs, plan, acked, hand, e)
                if step == 0 and run['swarm'].get('sweep'):
                    rec.probe('single_fault_sweep_run')
                if any(plan.fired[k] != before[k] for k in FAULT_KINDS):
                    rec.probe('fault_inside_' + op['op'])
    finally:
        fs.uninstall()
    fired = dict(plan.fired)
    rec.log(('raw', len(plan.log), digest(plan.log)))
    return rec, fired


def _specs(trains, e):
    return trains


def _exec(spk, rec, op, fs, plan, acked, hand, e):
    name = op['op']
    if name in ('save', 'crashsave'):
        trains = [spk.SpikeTrain(np.array(s, dtype=float), list(e)) for s in op['trains']]
        path = op['path']
        if name == 'crashsave':
            # turn the decision of the `at`-th raw write from now on into a crash
            k, seen = plan.pos, 0
            while len(plan.decisions) < plan.pos + 4 * (op['at'] + 2):
                plan.decisions.append(['ok'])
            plan.decisions[plan.pos + 1 + op['at']] = ['crash', op['keep']]
        acked.pop(path, None)
        hand.pop(path, None)
        status = 'ok'
        with captured_stdout():
            try:
                if op.get('defaults'):
                    spk.save_spike_trains_to_txt(trains, path)
                else:
                    spk.save_spike_trains_to_txt(trains, path, separator=op['sep'], precision=op['prec'])
            except SimCrash:
                status = 'crash'
            except Exception as ex:
                status = 'exc:' + type(ex).__name__
        if fs.crashed and status == 'ok':
            status = 'ok-after-crash'
        fs.crashed = False
        rec.log((name, path, status, digest(fs.get(path).decode('latin-1'))))
        if status.startswith('ok'):
            sep, prec = (' ', 8) if op.get('defaults') else (op['sep'], op['prec'])
            acked[path] = {'trains': op['trains'], 'sep': sep, 'prec': prec, 'step': rec.step,
                           'status': status}
        return
    if name == 'hand':
        lines, sep, com = op['lines'], op['sep'], op['comment']
        text = []
        expected = []
        for ln in lines:
            if ln['k'] == 'comment':
                text.append(ln['text'])
            elif ln['k'] == 'blank':
                text.append('')
                expected.append(None)
            else:
                if not ln['s']:
                    text.append('')
                    expected.append(None)
                else:
                    text.append(sep.join(repr(float(t)) for t in ln['s']))
                    expected.append(list(ln['s']))
        body = op['nl'].join(text)
        if text and op['trailing']:
            body += op['nl']
        elif text and text[-1] == '' and expected and expected[-1] is None:
            # a final blank line without newline does not exist as a line
            expected.pop()
        fs.put(op['path'], body.encode('utf-8'))
        acked.pop(op['path'], None)
        hand[op['path']] = {'expected': expected, 'sep': sep, 'comment': com}
        rec.log(('hand', op['path'], digest(body)))
        return
    if name == 'load':
        path = op['path']
        src = acked.get(path) or hand.get(path)
        sep = op['sep']
        comment = op['comment']
        if src is not None and op['match']:
            sep = src['sep']
            comment = src.get('comment', '#')
        edges = (e[1] - e[0]) if op['scalar_edge'] else list(e)
        kw = {'separator': sep, 'comment': comment, 'is_sorted': op['is_sorted'],
              'ignore_empty_lines': op['ignore_empty']}
        status = 'ok'
        res = None
        fired_before = dict(plan.fired)
        with captured_stdout():
            try:
                res = spk.load_spike_trains_from_txt(path, edges, **kw)
            except SimCrash:
                status = 'crash'
            except Exception as ex:
                status = 'exc:' + type(ex).__name__
                load_exc = ex
        rec.log(('load', path, status, digest(norm(res))))
        if status.startswith('exc') and src is not None and op['match'] and \
                all(plan.fired[k] == fired_before[k] for k in FAULT_KINDS):
            # no fault was injected into this load, the file was acknowledged (or written by hand in the
            # documented format) and is read with its own separator and comment marker: it must load
            rec.compared += 1
            rec.violate('C19.load_raised_on_healthy_disk',
                        {'op': op, 'load_kw': kw, 'exception': norm(load_exc),
                         'file': fs.get(path).decode('utf-8', 'replace')[:400],
                         'source': 'saved' if path in acked else 'hand-written'},
                        {'op': 'load', 'source': 'saved' if path in acked else 'hand', 'exc': type(load_exc).__name__})
            return
        if status != 'ok' or src is None or not op['match']:
            return
        if path in acked and comment != '#':
            pass
        rec.compared += 1
        facts = {'op': 'load', 'source': 'saved' if path in acked else 'hand', 'sep': sep,
                 'ignore_empty': op['ignore_empty'], 'is_sorted': op['is_sorted']}
        detail = {'op': op, 'load_kw': kw, 'edges': edges, 'file': fs.get(path).decode('utf-8', 'replace')[:600],
                  'loaded': norm(res)}
        if path in acked:
            want = [list(s) for s in src['trains']]
            prec = src['prec']
            detail['saved'] = {'trains': want, 'sep': src['sep'], 'prec': prec, 'at_step': src['step'],
                               'save_status': src['status']}
            if op['ignore_empty']:
                want = [s for s in want if s]
            oracle = 'C19.save_load_roundtrip'
        else:
            want = []
            for s in src['expected']:
                if s is None:
                    if not op['ignore_empty']:
                        want.append([])
                else:
                    want.append(list(s) if op['is_sorted'] else sorted(s))
            prec = 99
            oracle = 'C19.text_format'
        why = None
        if not isinstance(res, (list, tuple)) or len(res) != len(want):
            why = "loaded %s trains, expected %d" % (len(res) if isinstance(res, (list, tuple)) else type(res).__name__, len(want))
        else:
            for k, (st, w) in enumerate(zip(res, want)):
                why = _times_ok(list(st.spikes), w, prec)
                if why:
                    why = "train %d: %s" % (k, why)
                    break
                lo, hi = (0.0, float(edges)) if op['scalar_edge'] else (e[0], e[1])
                if float(st.t_start) != lo or float(st.t_end) != hi:
                    why = "train %d: edges (%r, %r), expected (%r, %r)" % (k, st.t_start, st.t_end, lo, hi)
                    break
        if why:
            rec.violate(oracle, dict(detail, why=why, expected=want), facts)
        return
    if name == 'fromstr':
        s = [float(t) for t in op['s']]
        text = op['sep'].join(repr(t) for t in s)
        edges = (e[1] - e[0]) if op['scalar_edge'] else list(e)
        with captured_stdout():
            try:
                st = spk.spike_train_from_string(text, edges, op['sep'], op['is_sorted'])
                err = None
            except Exception as ex:
                st, err = None, ex
        rec.log(('fromstr', norm(st) if err is None else norm(err)))
        rec.compared += 1
        want = s if op['is_sorted'] else sorted(s)
        lo, hi = (0.0, float(edges)) if op['scalar_edge'] else (e[0], e[1])
        if err is not None or [float(t) for t in st.spikes] != want or float(st.t_start) != lo or float(st.t_end) != hi:
            rec.violate('C19.from_string', {'op': op, 'text': text, 'edges': edges,
                                            'got': norm(st) if err is None else norm(err),
                                            'expected': {'st': want, 'e': [lo, hi]}}, {'op': 'fromstr'})
        return
    if name == 'tseries':
        mat = op['mat']
        sep = op['sep']
        fn = os.path.join(_tmpdir(), 'ts-%d.txt' % os.getpid())
        with open(fn, 'w') as f:      # a real temporary file (np.loadtxt opens the path itself)
            if op['comment']:
                f.write('# time series\n')
            for row in mat:
                cells = [('%.1f' % v) if op['as_float'] else str(v) for v in row]
                f.write((sep if sep else ' ').join(cells) + '\n')
        with captured_stdout():
            try:
                if sep is None:
                    res = spk.import_spike_trains_from_time_series(fn, op['start'], op['bin'])
                else:
                    res = spk.import_spike_trains_from_time_series(fn, op['start'], op['bin'], separator=sep)
                err = None
            except Exception as ex:
                res, err = None, ex
        rec.log(('tseries', norm(res) if err is None else norm(err)))
        rec.compared += 1
        start, b = op['start'], op['bin']
        ncol = len(mat[0])
        want = [[start + (k + 1) * b for k, v in enumerate(row) if v] for row in mat]
        from ..core import close as _close

        def _same(xs, ys):
            # dyadic start/bin: exact; otherwise start + (k+1)*bin and start + bin + k*bin differ by rounding
            return len(xs) == len(ys) and all(_close(float(x), float(y), 1e-12) for x, y in zip(xs, ys))
        ok = err is None and isinstance(res, (list, tuple)) and len(res) == len(want) and all(
            _same(list(st.spikes), w) and float(st.t_start) == start and
            _close(float(st.t_end), start + ncol * b, 1e-12)
            for st, w in zip(res, want))
        if not ok:
            rec.violate('C19.time_series', {'op': op, 'got': norm(res) if err is None else norm(err),
                                            'expected': want, 'expected_edges': [start, start + ncol * b]},
                        {'op': 'tseries', 'rows': len(mat), 'cols': ncol})
        return
    if name == 'ctor':
        edge = op['edge']
        arg = {'float': float(edge), 'int': int(edge) if float(int(edge)) == edge else float(edge),
               'pair': [0.0, float(edge)], 'nparr': np.float64(edge)}[op['form']]
        s = [t - e[0] for t in op['s'] if 0 <= t - e[0] <= edge]
        with captured_stdout():
            try:
                st = spk.SpikeTrain(s, arg)
                err = None
            except Exception as ex:
                st, err = None, ex
        rec.log(('ctor', norm(st) if err is None else norm(err)))
        rec.compared += 1
        if err is not None or float(st.t_start) != 0.0 or float(st.t_end) != float(edge) or \
                [float(t) for t in st.spikes] != s:
            rec.violate('C19.scalar_edge', {'op': op, 'got': norm(st) if err is None else norm(err),
                                            'expected_edges': [0.0, float(edge)]}, {'op': 'ctor', 'form': op['form']})
        return
    raise ValueError(name)


# ----------------------------------------------------------------------
def signature(run):
    ops = [(o['op'], o.get('sep'), o.get('prec'), o.get('nl'), o.get('ignore_empty'), o.get('is_sorted'),
            len(o.get('trains', o.get('lines', o.get('mat', []))))) for o in run['ops']]
    kinds = sorted(set(d[0] + (str(d[1]) if d[0] == 'err' else '') for d in run['faults'].get('io', [])))
    return digest([run['swarm']['knobs'], ops, kinds])


def simplify(run):
    dec = run['faults'].get('io') or []
    if dec:
        r = json.loads(json.dumps(run))
        r['faults']['io'] = []
        yield r
        r = json.loads(json.dumps(run))
        r['faults']['io'] = dec[:len(dec) // 2]
        yield r
        for k, d in enumerate(dec):
            if d[0] != 'ok':
                r = json.loads(json.dumps(run))
                r['faults']['io'][k] = ['ok']
                yield r
    kn = run['swarm']['knobs']
    for key, val in (('buffer_size', 8192), ('chunk', 8192), ('write_through', False), ('linesep', '\n')):
        if kn[key] != val:
            r = json.loads(json.dumps(run))
            r['swarm']['knobs'][key] = val
            yield r
    for oi, o in enumerate(run['ops']):
        for key in ('trains',):
            if key in o:
                for ti in range(len(o[key])):
                    if len(o[key]) > 1:
                        r = json.loads(json.dumps(run))
                        del r['ops'][oi][key][ti]
                        yield r
                    for k in range(len(o[key][ti])):
                        r = json.loads(json.dumps(run))
                        del r['ops'][oi][key][ti][k]
                        yield r
        if 'lines' in o:
            for k in range(len(o['lines'])):
                r = json.loads(json.dumps(run))
                del r['ops'][oi]['lines'][k]
                yield r
            for k, ln in enumerate(o['lines']):
                if ln['k'] == 'data':
                    for q in range(len(ln['s'])):
                        r = json.loads(json.dumps(run))
                        del r['ops'][oi]['lines'][k]['s'][q]
                        yield r
        if 'mat' in o:
            if len(o['mat']) > 1:
                for k in range(len(o['mat'])):
                    r = json.loads(json.dumps(run))
                    del r['ops'][oi]['mat'][k]
                    yield r
            if len(o['mat'][0]) > 1:
                for c in range(len(o['mat'][0])):
                    r = json.loads(json.dumps(run))
                    for row in r['ops'][oi]['mat']:
                        del row[c]
                    yield r
        if o.get('sep') not in (None, ' ') and o['op'] != 'tseries':
            r = json.loads(json.dumps(run))
            r['ops'][oi]['sep'] = ' '
            yield r
        if o.get('prec') not in (None, 8):
            r = json.loads(json.dumps(run))
            r['ops'][oi]['prec'] = 8
            yield r


def vary(run, rng):
    ops = run['ops']
    if run['swarm'].get('sweep'):
        return      # the runs of a sweep block must share their workload exactly
    if not ops or rng.random() < 0.3:
        return
    for _ in range(rng.randint(1, 3)):
        k = rng.randrange(len(ops))
        o = json.loads(json.dumps(ops[k]))
        if o['op'] == 'tseries':
            o['start'] = rng.choice([0.0, -2.0, 1.5, 100.0, 10.0])
            if rng.random() < 0.5:
                o['mat'] = [[1 if rng.random() < 0.35 else 0 for _c in row] for row in o['mat']]
        elif o['op'] == 'save':
            # same path, different (often shorter) content
            o['trains'] = [t[:rng.randint(0, len(t))] for t in o['trains'][:rng.randint(1, len(o['trains']))]]
        elif o['op'] == 'crashsave':
            continue
        ops.insert(rng.randint(k + 1, len(ops)), o)


def shape(run):
    kinds = sorted(set(d[0] + (str(d[1]) if d[0] == 'err' else '') for d in run['faults'].get('io', [])))
    return digest([run['swarm']['knobs'], kinds, sorted(set(o['op'] for o in run['ops']))])
