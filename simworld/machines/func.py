"""`func` machine (DESIGN.md 4.3): histories of add / mul_scalar / copy / reads on
live PieceWiseConstFunc / PieceWiseLinFunc (C09) and DiscreteFunc (C11) objects,
each paired with an exact rational model; every object not touched by a step
must keep its byte-wise snapshot; each `add` passes the backend seam, whose
outcome the fault plan decides per call."""
import json
from fractions import Fraction

import numpy as np

from ..core import Recorder, norm, close, digest
from ..world import BackendPlan, captured_stdout
from ..models import PwModel, DiscModel, smooth_model, F
from .. import gen
from . import backend as _backend

MACHINE = 'func'
FAULT_KINDS = ('import_fail', 'import_ok', 'import_flip')
ASSUMPTIONS = [
    "models are exact rational (Fraction) functions of the generated/returned float arrays; the objects' "
    "breakpoints, multiplicities and lengths are compared exactly, values within 1e-9",
    "the value/multiplicity stored in the two framing edge entries of a discrete profile is not compared "
    "(the property says they never count, not what they hold); plottable data are modelled from the arrays as found",
    "which add implementation serves a call (lowered cython_add vs python_backend) is decided per call by the "
    "fault plan; every step is compared with the model, so mixing cannot raise a false alarm",
]
RULE = {
    'C09': "a run = 5-30 operations on up to 7 live piecewise-constant or piecewise-linear functions on one interval: "
           "new (generated dyadic breakpoints/values; shared/some/no common breakpoints, single-piece operands), "
           "real isi/spike profiles, copy, a.add(b) incl. a.add(a) and a.add(copy of a), mul_scalar, average_profile, "
           "two-order add trees, caller scribbles on copies. Non-trivial: at least one add/mul/average compared with "
           "the model; distinct = distinct (kind, add-backend decision vector, operation sequence, piece-count multiset).",
    'C11': "a run = 5-30 operations on up to 7 live discrete profiles on one interval: new (events on the edges, shared "
           "event times, no events), real spike_sync / spike_train_order profiles, copy, add, mul_scalar, integral / "
           "avrg over None, one and several intervals (ends on events, between, on the edges), get_plottable_data(k=0..3). "
           "Non-trivial: at least one add or read compared with the model; distinct = distinct (add-backend decision "
           "vector, operation sequence, event-count multiset).",
}


def required_fired(prop):
    return ('import_fail', 'import_ok', 'import_flip')


# ----------------------------------------------------------------------
# generation
# ----------------------------------------------------------------------
def _gen_new(rng, wp, kind, base_x=None):
    if kind == 'disc':
        return _backend._gen_pw(rng, wp, 'disc')
    arrs = _backend._gen_pw(rng, wp, kind)
    if base_x is not None and len(base_x) > 2 and rng.random() < 0.12:
        # same number of pieces, every breakpoint nearly (not exactly) where the other function has one
        x = gen.jitter(rng, wp, base_x, keep_ends=True)
        if len(x) == len(base_x):
            n = len(x) - 1
            vals = lambda: [rng.randrange(-32, 33) / 8.0 for _ in range(n)]
            return [x, vals()] if kind == 'pwc' else [x, vals(), vals()]
    if base_x is not None and rng.random() < 0.5:
        # share all or some interior breakpoints with an existing function
        t0, t1 = gen.edges(wp)
        inner = [t for t in base_x[1:-1] if rng.random() < rng.choice([1.0, 0.5])]
        x = sorted(set([t0, t1] + inner + (arrs[0][1:-1] if rng.random() < 0.5 else [])))
        n = len(x) - 1
        vals = lambda: [rng.randrange(-32, 33) / 8.0 for _ in range(n)]
        arrs = [x, vals()] if kind == 'pwc' else [x, vals(), vals()]
    return arrs


def generate(prop, rng, tier):
    wp = gen.gen_wp(rng)
    kind = 'disc' if prop == 'C11' else rng.choice(['pwc', 'pwl'])
    nops = rng.randint(5, 14) if tier == 'quick' else rng.randint(10, 30)
    built = ['cython_add', 'cython_profiles', 'cython_directionality'] if rng.random() < 0.5 else []
    p = rng.choice([0.0, 0.2, 0.5])
    flips = [1 if rng.random() < p else 0 for _ in range(rng.choice([0, 40, 200]))]
    ops = []
    last_x = None
    n_live = 0
    for k in range(nops):
        r = rng.random()
        if n_live < 2 or r < 0.22:
            if rng.random() < 0.3:
                ntr = rng.choice([2, 2, 3, 4])
                trains = [gen.gen_spikes(rng, wp) for _ in range(ntr)]
                if rng.random() < 0.15:
                    trains[-1] = gen.jitter(rng, wp, trains[0])
                fam = {'pwc': 'isi', 'pwl': 'spike', 'disc': rng.choice(['sync', 'order'])}[kind]
                ops.append({'op': 'prof', 'family': fam, 'trains': trains,
                            'kw': gen.gen_kw(rng, wp, fam, allow_auto=False)})
            else:
                arrs = _gen_new(rng, wp, kind, last_x)
                last_x = arrs[0]
                ops.append({'op': 'new', 'arrs': arrs})
            n_live += 1
        elif r < 0.30:
            ops.append({'op': 'copy', 'i': rng.randrange(64), 'scribble': rng.random() < 0.5})
            n_live += 1
        elif r < 0.62:
            i = rng.randrange(64)
            q = rng.random()
            ops.append({'op': 'add', 'i': i, 'j': i if q < 0.08 else rng.randrange(64),
                        'jcopy': q < 0.16})
        elif r < 0.72:
            ops.append({'op': 'mul', 'i': rng.randrange(64),
                        'fac': rng.choice([0.5, 2.0, -1.0, 1.0 / 3, 0.0, 0.25, 3.0, 1.0 / 6])})
        elif r < 0.80 and kind != 'disc':
            ops.append({'op': 'avg', 'is': [rng.randrange(64) for _ in range(rng.randint(2, 4))]})
            n_live += 1
        elif r < 0.88 and kind != 'disc':
            n = rng.randint(2, 5)
            ops.append({'op': 'tree', 'is': [rng.randrange(64) for _ in range(n)],
                        'p1': rng.sample(range(n), n), 'p2': rng.sample(range(n), n)})
        else:
            if kind == 'disc':
                ops.append({'op': 'read', 'i': rng.randrange(64),
                            'what': rng.choice(['integral', 'integral', 'avrg', 'avrg', 'plot']),
                            'iv': 'auto', 'ivseed': rng.randrange(1 << 30), 'k': rng.choice([0, 1, 2, 3])})
            else:
                ops.append({'op': 'read', 'i': rng.randrange(64), 'what': 'integral'})
        if n_live > 7:
            ops.append({'op': 'drop', 'i': rng.randrange(64)})
            n_live -= 1
    return {'swarm': {'wp': wp, 'tier': tier, 'kind': kind, 'built': built}, 'init': {}, 'ops': ops,
            'faults': {'flips': flips}}


# ----------------------------------------------------------------------
# execution
# ----------------------------------------------------------------------
class Live(object):
    __slots__ = ('obj', 'model', 'kind')

    def __init__(self, obj, model, kind):
        self.obj, self.model, self.kind = obj, model, kind


def _arrays(o, kind):
    if kind == 'pwc':
        return [o.x, o.y]
    if kind == 'pwl':
        return [o.x, o.y1, o.y2]
    return [o.x, o.y, o.mp]


def _snap(l):
    return [(np.asarray(a).tobytes(), str(np.asarray(a).dtype), np.asarray(a).shape) for a in _arrays(l.obj, l.kind)]


def _model_from(obj, kind):
    if kind == 'pwc':
        return PwModel(list(map(float, obj.x)), list(map(float, obj.y)), list(map(float, obj.y)))
    if kind == 'pwl':
        return PwModel(list(map(float, obj.x)), list(map(float, obj.y1)), list(map(float, obj.y2)))
    x = list(map(float, obj.x))
    y = list(map(float, obj.y))
    mp = list(map(float, obj.mp))
    return DiscModel(x[0], x[-1], zip(x[1:-1], y[1:-1], mp[1:-1]))


def _construct(spk, kind, arrs):
    a = [np.array(v, dtype=float) for v in arrs]
    if kind == 'pwc':
        return spk.PieceWiseConstFunc(a[0], a[1])
    if kind == 'pwl':
        return spk.PieceWiseLinFunc(a[0], a[1], a[2])
    return spk.DiscreteFunc(a[0], a[1], a[2])


def _fclose(v, fr):
    return close(float(v), float(fr))


def check_against_model(l, t0, t1):
    """None or description of how the object deviates from its model"""
    o, m, kind = l.obj, l.model, l.kind
    try:
        x = [float(v) for v in o.x]
    except Exception as e:
        return "x unusable: %r" % e
    if kind in ('pwc', 'pwl'):
        ys = [[float(v) for v in a] for a in _arrays(o, kind)[1:]]
        if any(len(y) != len(x) - 1 for y in ys):
            return "array lengths inconsistent: x %d, values %s" % (len(x), [len(y) for y in ys])
        if x[0] != t0 or x[-1] != t1:
            return "end points changed: %r..%r" % (x[0], x[-1])
        if any(not a < b for a, b in zip(x, x[1:])):
            return "breakpoints not strictly increasing: %r" % x
        mx = [float(v) for v in m.x]
        if x != mx:
            return "breakpoints %r are not the union of the operands' breakpoints %r" % (x, mx)
        left = ys[0]
        right = ys[0] if kind == 'pwc' else ys[1]
        for k in range(len(left)):
            if not _fclose(left[k], m.l[k]) or not _fclose(right[k], m.r[k]):
                return "piece %d [%r, %r]: limits (%r, %r), pointwise sum is (%r, %r)" % (
                    k, x[k], x[k + 1], left[k], right[k], float(m.l[k]), float(m.r[k]))
        with captured_stdout():
            try:
                integ = float(o.integral())
            except Exception as e:
                return "integral() raised %r" % e
        if not _fclose(integ, m.integral()):
            return "integral %r, combination of the operands' integrals is %r" % (integ, float(m.integral()))
        return None
    # discrete
    y = [float(v) for v in o.y]
    mp = [float(v) for v in o.mp]
    if not (len(x) == len(y) == len(mp)):
        return "array lengths differ: %d %d %d" % (len(x), len(y), len(mp))
    if len(x) < 2 or x[0] != t0 or x[-1] != t1:
        return "edge entries missing or moved: %r" % x
    times = [float(t) for t in m.times()]
    if x[1:-1] != times:
        return "event times %r, expected one entry per distinct event time %r" % (x[1:-1], times)
    for k, t in enumerate(m.times()):
        ev = m.ev[t]
        if not _fclose(y[k + 1], ev[0]) or mp[k + 1] != float(ev[1]):
            return "event at %r: (value, multiplicity) = (%r, %r), expected (%r, %r)" % (
                float(t), y[k + 1], mp[k + 1], float(ev[0]), float(ev[1]))
    return None


def _pick_iv(rs, x, t0, t1):
    """intervals for discrete reads: ends on events / between / on the edges"""
    import random
    rng = random.Random(rs)
    pts = sorted(set(x))
    mids = [(a + b) / 2 for a, b in zip(pts, pts[1:])]

    def one():
        cand = pts + mids + [t0, t1]
        a, b = rng.choice(cand), rng.choice(cand)
        if a > b:
            a, b = b, a
        if not a < b:
            a, b = t0, t1
        return [a, b]
    r = rng.random()
    if r < 0.2:
        return None
    if r < 0.75:
        return one()
    if r < 0.88 and len(pts) > 2:
        # two intervals that touch exactly on an event time (open intervals: the event is in neither)
        m = rng.choice(pts[1:-1])
        lo = rng.choice([p for p in pts + mids if p < m] or [t0])
        hi = rng.choice([p for p in pts + mids if p > m] or [t1])
        return [[lo, m], [m, hi]]
    return [one(), one()]


def execute(world, run, prop=None):
    prop = prop or run['property']
    rec = Recorder(prop)
    spk = world.spk
    wp = run['swarm']['wp']
    kind = run['swarm']['kind']
    t0, t1 = gen.edges(wp)
    plan = BackendPlan(run['swarm']['built'], run['faults'].get('flips'))
    events = []
    live = []
    P = 'C11' if kind == 'disc' else 'C09'

    def facts(op, **kw):
        f = {'op': op['op'], 'kind': kind}
        f.update(kw)
        return f

    with world.run_context(plan, events):
        for step, op in enumerate(run['ops']):
            rec.step = step
            name = op['op']
            touched = []      # indices whose state legitimately changes in this step
            snaps = [_snap(l) for l in live]
            n_before = len(live)
            if name == 'new':
                o = _construct(spk, kind, op['arrs'])
                live.append(Live(o, _model_from(o, kind), kind))
                rec.log(('new', digest(norm(o))))
            elif name == 'prof':
                trains = [spk.SpikeTrain(np.array(s, dtype=float), [t0, t1]) for s in op['trains']]
                fn = {'isi': 'isi_profile', 'spike': 'spike_profile', 'sync': 'spike_sync_profile',
                      'order': 'spike_train_order_profile'}[op['family']]
                with captured_stdout():
                    try:
                        o = getattr(spk, fn)(trains, **op['kw'])
                    except Exception as e:
                        o = None
                        rec.log(('prof', fn, norm(e)))
                if o is not None:
                    try:
                        live.append(Live(o, _model_from(o, kind), kind))
                        rec.log(('prof', fn, digest(norm(o))))
                    except Exception as e:
                        rec.log(('prof-unusable', fn, repr(e)[:80]))
            elif not live:
                rec.log(('skip', name))
                continue
            elif name == 'copy':
                i = op['i'] % len(live)
                try:
                    c = live[i].obj.copy()
                except Exception as e:
                    rec.violate(P + '.copy_equal', {'op': op, 'why': "copy() raised %r" % e}, facts(op))
                    continue
                nl = Live(c, live[i].model.copy(), kind)
                rec.compared += 1
                why = check_against_model(nl, t0, t1)
                if why:
                    rec.violate(P + '.copy_equal', {'op': op, 'why': why, 'original': norm(live[i].obj),
                                                    'copy': norm(c)}, facts(op))
                if op.get('scribble'):
                    # the caller writes into the copy's arrays: the original must not notice
                    for a in _arrays(c, kind)[1:]:
                        if len(a):
                            try:
                                a[len(a) // 2] = a[len(a) // 2] + 1.0
                            except Exception:
                                pass
                    nl.model = _model_from(c, kind)
                live.append(nl)
                rec.log(('copy', i, digest(norm(c))))
            elif name == 'add':
                i = op['i'] % len(live)
                j = op['j'] % len(live)
                a = live[i]
                if op.get('jcopy'):
                    bobj, bmodel = a.obj.copy(), a.model.copy()
                    other_snap = None
                else:
                    bobj, bmodel = live[j].obj, live[j].model
                bsnap = _snap(Live(bobj, None, kind))
                bm = bmodel.copy()
                with captured_stdout():
                    try:
                        a.obj.add(bobj)
                        err = None
                    except Exception as e:
                        err = e
                touched = [i]
                rec.compared += 1
                detail = {'op': op, 'receiver_index': i, 'operand_index': j,
                          'import_events': events[-1:] if events else []}
                if err is not None:
                    rec.violate(P + '.add_pointwise', dict(detail, why="add raised %r" % err,
                                                           receiver_model_x=[float(v) for v in a.model.x] if kind != 'disc' else None),
                                facts(op, exc=type(err).__name__))
                    a.model = _safe_model(a, kind)
                else:
                    a.model.add(bm)
                    why = check_against_model(a, t0, t1)
                    if why:
                        rec.violate(P + '.add_pointwise', dict(detail, why=why, result=norm(a.obj),
                                                               operand=norm(bobj)), facts(op))
                        a.model = _safe_model(a, kind)
                    if i != j or op.get('jcopy'):
                        if _snap(Live(bobj, None, kind)) != bsnap:
                            rec.violate(P + '.operand_unmodified', dict(detail, why="the added operand changed",
                                                                        operand_after=norm(bobj)), facts(op))
                            if not op.get('jcopy'):
                                live[j].model = _safe_model(live[j], kind)
                                touched.append(j)
                rec.log(('add', i, j, bool(op.get('jcopy')), digest(norm(a.obj))))
            elif name == 'mul':
                i = op['i'] % len(live)
                a = live[i]
                xb = np.asarray(a.obj.x).tobytes()
                err = None
                with captured_stdout():
                    try:
                        a.obj.mul_scalar(op['fac'])
                    except Exception as e:
                        err = e
                a.model.scale(op['fac'])
                touched = [i]
                rec.compared += 1
                why = ("mul_scalar raised %r" % err) if err is not None else check_against_model(a, t0, t1)
                if why is None and np.asarray(a.obj.x).tobytes() != xb:
                    why = "mul_scalar changed the time axis"
                if why:
                    rec.violate(P + '.mul_scalar', {'op': op, 'why': why, 'result': norm(a.obj)}, facts(op))
                    a.model = _safe_model(a, kind)
                rec.log(('mul', i, digest(norm(a.obj))))
            elif name == 'avg':
                idx = [k % len(live) for k in op['is']]
                profs = [live[k].obj for k in idx]
                with captured_stdout():
                    try:
                        from pyspike.DiscreteFunc import average_profile
                        r = average_profile(profs)
                        err = None
                    except Exception as e:
                        r, err = None, e
                rec.compared += 1
                if err is not None:
                    rec.violate(P + '.average_profile', {'op': op, 'why': "raised %r" % err}, facts(op))
                else:
                    m = live[idx[0]].model.copy()
                    for k in idx[1:]:
                        m.add(live[k].model.copy())
                    m.scale(Fraction(1, len(idx)))
                    nl = Live(r, m, kind)
                    why = check_against_model(nl, t0, t1)
                    if why is None and any(r is p for p in profs):
                        why = "average_profile returned one of its inputs"
                    if why:
                        rec.violate(P + '.average_profile', {'op': op, 'why': why, 'result': norm(r)}, facts(op))
                        nl.model = _safe_model(nl, kind)
                    live.append(nl)
                rec.log(('avg', idx, digest(norm(r))))
            elif name == 'tree':
                idx = [k % len(live) for k in op['is']]
                res = []
                for perm, shape in ((op['p1'], 'fold'), (op['p2'], 'dc')):
                    items = [live[idx[p]].obj.copy() for p in perm]
                    with captured_stdout():
                        try:
                            if shape == 'fold':
                                acc = items[0]
                                for it in items[1:]:
                                    acc.add(it)
                            else:
                                acc = _dc(items)
                            res.append(acc)
                        except Exception as e:
                            res.append(e)
                rec.compared += 1
                m = live[idx[0]].model.copy()
                for k in idx[1:]:
                    m.add(live[k].model.copy())
                bad = None
                for r, shape in zip(res, ('fold', 'divide-and-conquer')):
                    if isinstance(r, Exception):
                        bad = "%s order raised %r" % (shape, r)
                        break
                    why = check_against_model(Live(r, m, kind), t0, t1)
                    if why:
                        bad = "%s order: %s" % (shape, why)
                        break
                if bad:
                    rec.violate(P + '.order_independent', {'op': op, 'why': bad,
                                                           'operands': [norm(live[k].obj) for k in idx]}, facts(op))
                rec.log(('tree', idx, [digest(norm(r)) for r in res]))
            elif name == 'read':
                i = op['i'] % len(live)
                _read(rec, P, op, live[i], kind, t0, t1, facts)
            elif name == 'drop':
                if len(live) > 2:
                    i = op['i'] % len(live)
                    del live[i]
                    del snaps[i]
                    n_before -= 1
                rec.log(('drop',))
            else:
                raise ValueError("unknown op %r" % name)
            # every object not touched by this step keeps its snapshot
            for k in range(min(n_before, len(live))):
                if k in touched:
                    continue
                if _snap(live[k]) != snaps[k]:
                    rec.violate(P + '.untouched_unchanged',
                                {'op': op, 'object_index': k, 'why': "an object not involved in this step changed",
                                 'now': norm(live[k].obj)}, facts(op))
                    live[k].model = _safe_model(live[k], kind)
    rec.log(('events', len(events), digest(events)))
    return rec, dict(plan.fired)


def _safe_model(l, kind):
    try:
        return _model_from(l.obj, kind)
    except Exception:
        return l.model


def _dc(items):
    if len(items) == 1:
        return items[0]
    h = len(items) // 2
    a = _dc(items[:h])
    b = _dc(items[h:])
    a.add(b)
    return a


def _read(rec, P, op, l, kind, t0, t1, facts):
    o, m = l.obj, l.model
    what = op['what']
    if kind != 'disc':
        with captured_stdout():
            try:
                v = float(o.integral())
            except Exception as e:
                v = e
        rec.log(('read', 'integral', norm(v)))
        rec.compared += 1
        if isinstance(v, Exception) or not _fclose(v, m.integral()):
            rec.violate(P + '.integral_combination', {'op': op, 'got': norm(v), 'expected': float(m.integral()),
                                                      'function': norm(o)}, facts(op))
        return
    x = [float(v) for v in o.x]
    iv = _pick_iv(op['ivseed'], x, t0, t1)
    if what in ('integral', 'avrg'):
        with captured_stdout():
            try:
                got = o.integral(iv) if what == 'integral' else o.avrg(iv)
            except Exception as e:
                got = e
        sv, sm = m.sums(iv)
        rec.log(('read', what, norm(iv), norm(got)))
        rec.compared += 1
        if isinstance(got, Exception):
            rec.violate('C11.integral_open_interval', {'op': op, 'interval': iv, 'why': "raised %r" % got,
                                                       'function': norm(o)}, facts(op, what=what))
            return
        if what == 'integral':
            ok = _fclose(got[0], sv) and _fclose(got[1], sm)
            exp = [float(sv), float(sm)]
        else:
            exp = float(sv / sm) if sm != 0 else 1.0
            ok = close(float(got), exp)
        if not ok:
            rec.violate('C11.integral_open_interval', {'op': op, 'interval': iv, 'what': what, 'got': norm(got),
                                                       'expected': exp, 'function': norm(o)},
                        facts(op, what=what))
        return
    # plottable data
    k = op['k']
    with captured_stdout():
        try:
            xp, yp = o.get_plottable_data(k) if k else o.get_plottable_data()
        except Exception as e:
            xp, yp = e, None
    rec.log(('read', 'plot', k, norm(xp), norm(yp)))
    rec.compared += 1
    if isinstance(xp, Exception):
        rec.violate('C11.plottable', {'op': op, 'why': "raised %r" % xp, 'function': norm(o)}, facts(op, k=k))
        return
    y = [float(v) for v in o.y]
    mp = [float(v) for v in o.mp]
    exp = smooth_model(x, y, mp, k)
    ok = [float(v) for v in xp] == x and len(yp) == len(exp) and \
        all(close(float(a), float(b)) for a, b in zip(yp, exp))
    if not ok:
        rec.violate('C11.plottable', {'op': op, 'k': k, 'got': [norm(xp), norm(yp)],
                                      'expected_y': [float(v) for v in exp], 'function': norm(o)}, facts(op, k=k))


# ----------------------------------------------------------------------
def signature(run):
    ops = [(o['op'], o.get('what', ''), len(o.get('arrs', [[]])[0]) if o['op'] == 'new' else 0) for o in run['ops']]
    return digest([run['swarm']['kind'], run['swarm']['built'], run['faults'].get('flips', [])[:16], ops])


def simplify(run):
    fl = run['faults'].get('flips') or []
    if fl:
        r = json.loads(json.dumps(run))
        r['faults']['flips'] = []
        yield r
        for k, b in enumerate(fl):
            if b:
                r = json.loads(json.dumps(run))
                r['faults']['flips'][k] = 0
                yield r
    if run['swarm']['built']:
        r = json.loads(json.dumps(run))
        r['swarm']['built'] = []
        yield r
    for oi, o in enumerate(run['ops']):
        if o['op'] == 'new':
            arrs = o['arrs']
            n = len(arrs[0])
            kind = run['swarm']['kind']
            # drop an interior breakpoint / event
            for k in range(1, n - 1):
                r = json.loads(json.dumps(run))
                a = r['ops'][oi]['arrs']
                del a[0][k]
                if kind == 'disc':
                    del a[1][k]
                    del a[2][k]
                else:
                    for v in a[1:]:
                        del v[k if k < len(v) else -1]
                yield r
            # simpler values
            for ai in range(1, len(arrs)):
                for k in range(len(arrs[ai])):
                    if arrs[ai][k] not in (0.0, 1.0):
                        r = json.loads(json.dumps(run))
                        r['ops'][oi]['arrs'][ai][k] = 1.0
                        yield r
        if o['op'] == 'prof':
            for ti, t in enumerate(o['trains']):
                for k in range(len(t)):
                    r = json.loads(json.dumps(run))
                    del r['ops'][oi]['trains'][ti][k]
                    yield r
            if len(o['trains']) > 2:
                for ti in range(len(o['trains'])):
                    r = json.loads(json.dumps(run))
                    del r['ops'][oi]['trains'][ti]
                    yield r
            for key in list(o['kw']):
                r = json.loads(json.dumps(run))
                del r['ops'][oi]['kw'][key]
                yield r
        if o['op'] == 'add' and o.get('jcopy'):
            r = json.loads(json.dumps(run))
            r['ops'][oi]['jcopy'] = False
            yield r
        if o['op'] == 'copy' and o.get('scribble'):
            r = json.loads(json.dumps(run))
            r['ops'][oi]['scribble'] = False
            yield r


def vary(run, rng):
    ops = run['ops']
    if not ops or rng.random() < 0.4:
        return
    for _ in range(rng.randint(1, 3)):
        k = rng.randrange(len(ops))
        o = json.loads(json.dumps(ops[k]))
        if o['op'] in ('new', 'prof', 'drop'):
            continue
        ops.insert(rng.randint(k + 1, len(ops)), o)


def shape(run):
    return digest([run['swarm']['kind'], run['swarm']['built'], bool(run['faults'].get('flips')),
                   sorted(set((o['op'], o.get('what', '')) for o in run['ops'])), len(run['ops']) // 5])
