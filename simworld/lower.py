"""Lower the Cython subset used by pyspike/cython/*.pyx to plain Python.

No Cython compiler exists in this sandbox (DESIGN.md 3.3), so the compiled side
of the backend seam is served by a stand-in: the .pyx source of the tree under
test, lowered statement by statement.  Two passes:

1. a line-preserving textual pass that removes Cython-only syntax (`cdef`
   declarations, typed signatures, `cimport`, `with nogil`) and records, per
   function, which names are C-typed;
2. an AST pass that re-introduces the C semantics those declarations carry:
   every assignment to a C-typed name is coerced (`double` -> np.float64 so
   that IEEE division applies as under `cdivision=True`, `int` -> truncation),
   typed parameters are coerced on entry (memoryviews must be float64 arrays of
   the right rank, like Cython's buffer check), values returned from `def`
   functions are converted the way Cython boxes C values (C double -> float,
   C int -> int).

The module is compiled from the AST, so line numbers in tracebacks and reach
probes are those of the .pyx file.  Anything outside the subset raises
LoweringError (a harness error, never a violation).
"""
import ast
import re

CTYPES = r'(?:unsigned\s+)?(?:double|int|long|float|bint|Py_ssize_t)'
MV = r'(?:\[\s*:\s*(?:,\s*:\s*)*\])'
TYPE = CTYPES + r'\s*' + MV + r'?'


class LoweringError(Exception):
    def __init__(self, path, lineno, msg):
        Exception.__init__(self, "cannot lower %s:%s: %s" % (path, lineno, msg))
        self.path, self.lineno = path, lineno


def _strip_comment(s):
    # no '#' occurs inside string literals on the lines this is applied to
    return re.sub(r'#.*$', '', s)


def _split_args(s):
    out, depth, cur = [], 0, ''
    for ch in s:
        if ch in '([{':
            depth += 1
        if ch in ')]}':
            depth -= 1
        if ch == ',' and depth == 0:
            out.append(cur)
            cur = ''
        else:
            cur += ch
    if cur.strip():
        out.append(cur)
    return out


def _ctype(ty, mv):
    ty = re.sub(r'\s+', ' ', ty.strip())
    if mv:
        return ('mv', ty, mv.count(':'))
    if ty in ('double', 'float'):
        return ('double',)
    return ('int',)


def _textual_pass(src, path):
    """returns (python source with identical line numbering, function table)"""
    lines = src.split('\n')
    out = []
    funcs = {}
    cur = None          # (name, indent) of the function being scanned
    i = 0
    hdr_re = re.compile(r'^(def|cdef|cpdef)\s+(?:inline\s+)?(?:(' + CTYPES + r')\s*(' + MV + r')?\s+)?(\w+)\s*\(')
    while i < len(lines):
        line = lines[i]
        stripped = line.strip()
        indent = line[:len(line) - len(line.lstrip())]
        nocom = _strip_comment(stripped).strip()
        if cur is not None and stripped and not stripped.startswith('#') \
                and len(indent) <= len(cur[1]) and not nocom.startswith(')'):
            cur = None
        m = hdr_re.match(nocom)
        if m and not re.match(r'^cdef\s+' + TYPE + r'\s*\w+\s*=', nocom):
            kind, rty, rmv, name = m.group(1), m.group(2), m.group(3), m.group(4)
            full = nocom
            n_extra = 0
            while full.count('(') > full.count(')') or not full.rstrip().endswith(':'):
                n_extra += 1
                if i + n_extra >= len(lines):
                    raise LoweringError(path, i + 1, "unterminated function header")
                full += ' ' + _strip_comment(lines[i + n_extra]).strip()
            hm = re.match(r'^(?:def|cdef|cpdef)\s+(?:inline\s+)?(?:' + TYPE + r'\s+)?(\w+)\s*\((.*)\)\s*(nogil)?\s*:\s*$', full)
            if not hm:
                raise LoweringError(path, i + 1, "unsupported function header: %r" % full)
            argstr = hm.group(2)
            params, pyargs = [], []
            for a in _split_args(argstr):
                a = a.strip()
                am = re.match(r'^(' + CTYPES + r')\s*(' + MV + r')?\s*(\w+)\s*(=.*)?$', a)
                if am and am.group(3) not in ('double', 'int', 'long', 'float'):
                    params.append((am.group(3), _ctype(am.group(1), am.group(2))))
                    pyargs.append(am.group(3) + (am.group(4) or ''))
                elif re.match(r'^\w+\s*(=.*)?$', a):
                    pyargs.append(a)
                else:
                    raise LoweringError(path, i + 1, "unsupported parameter %r" % a)
            funcs[name] = {'kind': 'def' if kind == 'def' else 'cdef',
                           'ret': _ctype(rty, rmv) if rty else None,
                           'params': params, 'locals': {}, 'lineno': i + 1}
            out.append(indent + 'def %s(%s):' % (name, ', '.join(pyargs)))
            for _ in range(n_extra):
                out.append('')
            i += n_extra + 1
            cur = (name, indent)
            continue
        # cimports
        if re.match(r'^cimport\b', nocom):
            out.append(indent + 'pass')
            i += 1
            continue
        m = re.match(r'^from\s+([\w\.]+)\s+cimport\s+(.*)$', nocom)
        if m:
            mod, names = m.group(1), [n.strip() for n in m.group(2).split(',')]
            stmts = []
            for n in names:
                if not re.match(r'^\w+$', n):
                    raise LoweringError(path, i + 1, "unsupported cimport %r" % n)
                stmts.append('%s = _rt.cimport(%r, %r)' % (n, mod, n))
            out.append(indent + '; '.join(stmts))
            i += 1
            continue
        # cdef declarations
        m = re.match(r'^cdef\s+(' + CTYPES + r')\s*(' + MV + r')?\s*(.*)$', nocom)
        if m:
            if cur is None:
                raise LoweringError(path, i + 1, "module-level cdef declaration")
            ty = _ctype(m.group(1), m.group(2))
            rest = m.group(3).strip()
            if '=' in rest:
                name, expr = rest.split('=', 1)
                name = name.strip()
                if not re.match(r'^\w+$', name):
                    raise LoweringError(path, i + 1, "unsupported declaration %r" % rest)
                funcs[cur[0]]['locals'][name] = ty
                out.append(indent + '%s = %s' % (name, expr.strip()))
            else:
                for name in rest.split(','):
                    name = name.strip()
                    if not re.match(r'^\w+$', name):
                        raise LoweringError(path, i + 1, "unsupported declaration %r" % rest)
                    funcs[cur[0]]['locals'][name] = ty
                out.append(indent + 'pass')
            i += 1
            continue
        if re.match(r'^c(p)?def\b', nocom) or re.match(r'^ctypedef\b', nocom) or \
                re.match(r'^(struct|enum|union|extern)\b', nocom):
            raise LoweringError(path, i + 1, "unsupported Cython construct %r" % nocom)
        if re.match(r'^with\s+(nogil|gil)\s*:', nocom):
            out.append(indent + 'if True:')
            i += 1
            continue
        if re.search(r'<\s*' + CTYPES + r'\s*\**\s*>', nocom) or re.search(r'\bmalloc\b|\bfree\(|&\w', nocom):
            raise LoweringError(path, i + 1, "casts/pointers are outside the supported subset")
        line = re.sub(r'\bxrange\b', 'range', line)
        out.append(line)
        i += 1
    return '\n'.join(out), funcs


def _rt_call(fn, *args):
    return ast.Call(func=ast.Attribute(value=ast.Name(id='_rt', ctx=ast.Load()),
                                       attr=fn, ctx=ast.Load()),
                    args=list(args), keywords=[])


def _coerce(expr, ty):
    if ty[0] == 'double':
        return _rt_call('c_double', expr)
    if ty[0] == 'int':
        return _rt_call('c_int', expr)
    return _rt_call('as_memview', expr, ast.Constant(ty[2]), ast.Constant(ty[1]))


class _FuncPass(ast.NodeTransformer):
    def __init__(self, info):
        self.info = info
        self.types = dict(info['params'])
        self.types.update(info['locals'])

    def visit_FunctionDef(self, node):
        return node  # nested functions: leave untouched (none in the subset)

    def visit_Assign(self, node):
        self.generic_visit(node)
        if len(node.targets) == 1:
            t = node.targets[0]
            if isinstance(t, ast.Name) and t.id in self.types:
                node.value = _coerce(node.value, self.types[t.id])
            elif isinstance(t, ast.Tuple) and isinstance(node.value, ast.Tuple) \
                    and len(t.elts) == len(node.value.elts):
                for k, e in enumerate(t.elts):
                    if isinstance(e, ast.Name) and e.id in self.types:
                        node.value.elts[k] = _coerce(node.value.elts[k], self.types[e.id])
        return node

    def visit_AugAssign(self, node):
        self.generic_visit(node)
        t = node.target
        if isinstance(t, ast.Name) and t.id in self.types:
            new = ast.Assign(
                targets=[ast.Name(id=t.id, ctx=ast.Store())],
                value=_coerce(ast.BinOp(left=ast.Name(id=t.id, ctx=ast.Load()),
                                        op=node.op, right=node.value),
                              self.types[t.id]))
            return ast.copy_location(new, node)
        return node

    def visit_For(self, node):
        self.generic_visit(node)
        return node

    def visit_Return(self, node):
        self.generic_visit(node)
        if node.value is None:
            return node
        if self.info['kind'] == 'def':
            node.value = _rt_call('to_py', node.value)
        elif self.info['ret'] is not None:
            node.value = _coerce(node.value, self.info['ret'])
        return node


def lower(src, path='<pyx>'):
    """returns (code object, python source of the textual pass, function table)"""
    pysrc, funcs = _textual_pass(src, path)
    try:
        tree = ast.parse(pysrc, filename=path)
    except SyntaxError as e:
        raise LoweringError(path, e.lineno, "does not parse after lowering: %s" % e.msg)
    for node in tree.body:
        if isinstance(node, ast.FunctionDef) and node.name in funcs:
            info = funcs[node.name]
            fp = _FuncPass(info)
            node.body = [fp.visit(st) if not isinstance(st, ast.FunctionDef) else st
                         for st in node.body]
            pre = []
            for name, ty in info['params']:
                st = ast.Assign(targets=[ast.Name(id=name, ctx=ast.Store())],
                                value=_coerce(ast.Name(id=name, ctx=ast.Load()), ty))
                pre.append(ast.copy_location(st, node))
            # keep a leading docstring first
            k = 0
            if node.body and isinstance(node.body[0], ast.Expr) and \
                    isinstance(getattr(node.body[0], 'value', None), ast.Constant) and \
                    isinstance(node.body[0].value.value, str):
                k = 1
            node.body = node.body[:k] + pre + node.body[k:]
    ast.fix_missing_locations(tree)
    code = compile(tree, path, 'exec')
    return code, pysrc, funcs
