"""Shared plumbing: seeds, canonical forms, digests, tolerance, violations."""
import hashlib
import json
import math
import random

import numpy as np

TOL = 1e-9


def derive_seed(verif_seed, prop, machine, run_index):
    s = "%d:%s:%s:%d" % (verif_seed, prop, machine, run_index)
    return int(hashlib.sha256(s.encode()).hexdigest()[:16], 16)


def rng_for(verif_seed, prop, machine, run_index):
    return random.Random(derive_seed(verif_seed, prop, machine, run_index))


def jdump(obj):
    return json.dumps(obj, sort_keys=True, separators=(',', ':'), allow_nan=True)


def digest(obj):
    return hashlib.sha256(jdump(obj).encode()).hexdigest()


def fl(x):
    """plain python float (JSON round-trips repr exactly)"""
    return float(x)


def fls(a):
    return [float(v) for v in np.asarray(a, dtype=float).ravel()]


def norm(r):
    """canonical JSON-able form of anything PySpike returns"""
    if r is None or isinstance(r, (bool, str)):
        return r
    if isinstance(r, (int, np.integer)):
        return int(r)
    if isinstance(r, (float, np.floating)):
        return float(r)
    if isinstance(r, np.ndarray):
        if r.ndim <= 1:
            return {'arr': fls(r)}
        return {'mat': [fls(row) for row in r]}
    if isinstance(r, (list, tuple)):
        return [norm(x) for x in r]
    cls = type(r).__name__
    if cls == 'SpikeTrain':
        return {'st': fls(r.spikes), 'e': [float(r.t_start), float(r.t_end)]}
    if cls == 'PieceWiseConstFunc':
        return {'pwc': [fls(r.x), fls(r.y)]}
    if cls == 'PieceWiseLinFunc':
        return {'pwl': [fls(r.x), fls(r.y1), fls(r.y2)]}
    if cls == 'DiscreteFunc':
        return {'disc': [fls(r.x), fls(r.y), fls(r.mp)]}
    if isinstance(r, BaseException):
        return {'exc': type(r).__name__, 'msg': str(r)[:120]}
    if isinstance(r, memoryview):
        return {'arr': fls(np.asarray(r))}
    return {'repr': repr(r)[:120]}


def close(a, b, tol=TOL):
    """|a-b| <= tol*max(1,|a|,|b|); NaN is close to nothing"""
    a = float(a)
    b = float(b)
    if a != a or b != b:
        return False
    if a == b:
        return True
    if math.isinf(a) or math.isinf(b):
        return False
    return abs(a - b) <= tol * max(1.0, abs(a), abs(b))


def close_seq(a, b, tol=TOL):
    a = list(a)
    b = list(b)
    if len(a) != len(b):
        return False
    for x, y in zip(a, b):
        if not close(x, y, tol):
            return False
    return True


def same_norm(a, b, tol=TOL, exact_keys=()):
    """structural comparison of two norm() values; floats within tol"""
    if isinstance(a, dict) and isinstance(b, dict):
        if sorted(a) != sorted(b):
            return False
        for k in a:
            if k in ('exc', 'msg', 'repr'):
                if k == 'exc' and a[k] != b[k]:
                    return False
                continue
            if not same_norm(a[k], b[k], tol):
                return False
        return True
    if isinstance(a, list) and isinstance(b, list):
        if len(a) != len(b):
            return False
        return all(same_norm(x, y, tol) for x, y in zip(a, b))
    if isinstance(a, bool) or isinstance(b, bool) or isinstance(a, str) or isinstance(b, str) \
            or a is None or b is None:
        return a == b
    if isinstance(a, (int, float)) and isinstance(b, (int, float)):
        if a != a and b != b:
            return True   # NaN in the same place: structural equality (finiteness is C18's business)
        return close(a, b, tol)
    return a == b


def all_finite(n):
    """True iff every number inside a norm() value is finite"""
    if isinstance(n, dict):
        return all(all_finite(v) for k, v in n.items() if k not in ('exc', 'msg', 'repr'))
    if isinstance(n, list):
        return all(all_finite(v) for v in n)
    if isinstance(n, bool) or n is None or isinstance(n, str):
        return True
    if isinstance(n, (int, float)):
        return math.isfinite(n)
    return True


class Recorder(object):
    """collects violations and the trace of one run"""

    def __init__(self, prop):
        self.prop = prop
        self.violations = []
        self.trace = []
        self.step = -1
        self.compared = 0      # number of non-degenerate oracle comparisons
        self.probes = {}

    def violate(self, oracle, detail, facts=None):
        self.violations.append({'property': self.prop, 'oracle': oracle, 'step': self.step,
                                'detail': detail, 'facts': facts or {}})

    def probe(self, name, n=1):
        self.probes[name] = self.probes.get(name, 0) + n

    def log(self, item):
        self.trace.append(item)
