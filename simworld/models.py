"""Reference models, written from the property statements, not from the code."""
import math
from fractions import Fraction


# ----------------------------------------------------------------------
# independent integrators used by the C05 oracle
# ----------------------------------------------------------------------
def _ivs(iv, x):
    if iv is None:
        return [[x[0], x[-1]]]
    if isinstance(iv[0], (list, tuple)):
        return [list(p) for p in iv]
    return [list(iv)]


def pwc_average(x, y, iv):
    """time average of the piecewise-constant function (x, y) over iv"""
    tot, length = [], 0.0
    for a, b in _ivs(iv, x):
        for k in range(len(y)):
            lo = max(a, x[k])
            hi = min(b, x[k + 1])
            if hi > lo:
                tot.append((hi - lo) * y[k])
        length += b - a
    return math.fsum(tot) / length


def pwl_average(x, y1, y2, iv):
    tot, length = [], 0.0
    for a, b in _ivs(iv, x):
        for k in range(len(y1)):
            lo = max(a, x[k])
            hi = min(b, x[k + 1])
            if hi > lo:
                w = x[k + 1] - x[k]
                vlo = y1[k] + (y2[k] - y1[k]) * (lo - x[k]) / w
                vhi = y1[k] + (y2[k] - y1[k]) * (hi - x[k]) / w
                tot.append(0.5 * (vlo + vhi) * (hi - lo))
        length += b - a
    return math.fsum(tot) / length


def disc_sums(x, y, mp, iv):
    """(sum of values, sum of multiplicities) of the events strictly inside iv;
    the two framing edge entries never count"""
    sv, sm = [], []
    for a, b in _ivs(iv, x) if iv is not None else [[None, None]]:
        for k in range(1, len(x) - 1):
            if iv is None or (a < x[k] < b):
                sv.append(y[k])
                sm.append(mp[k])
    return math.fsum(sv), math.fsum(sm)


# ----------------------------------------------------------------------
# reconcile model (C13)
# ----------------------------------------------------------------------
EPS = 1e-6


def reconcile_model(specs):
    """specs: list of {'s': [...], 'e': [t0, t1]} -> canonical valid version:
    common edges, sorted distinct times inside [tStart, tEnd]"""
    t_start = min(sp['e'][0] for sp in specs)
    t_end = max(sp['e'][1] for sp in specs)
    out = []
    for sp in specs:
        out.append({'s': sorted(set(t for t in sp['s'] if t_start <= t <= t_end)),
                    'e': [t_start, t_end]})
    return out


def check_reconciled(specs, outs):
    """outs: list of (spikes list, t_start, t_end) as returned by the code.
    returns None or a string describing the first deviation from the statement"""
    if len(outs) != len(specs):
        return "returned %d trains for %d inputs" % (len(outs), len(specs))
    t_start = min(sp['e'][0] for sp in specs)
    t_end = max(sp['e'][1] for sp in specs)
    for k, (sp, (s, a, b)) in enumerate(zip(specs, outs)):
        if a != t_start or b != t_end:
            return "train %d: edges (%r, %r), expected (%r, %r)" % (k, a, b, t_start, t_end)
        for u, v in zip(s, s[1:]):
            if not u < v:
                return "train %d: spike times not strictly increasing at %r, %r" % (k, u, v)
        inp = set(sp['s'])
        got = set(s)
        for t in got:
            if t not in inp:
                return "train %d: output time %r is not an input time" % (k, t)
            if t < t_start - EPS or t > t_end + EPS:
                return "train %d: output time %r is more than 1e-6 outside the interval" % (k, t)
        for t in inp:
            if t_start <= t <= t_end and t not in got:
                return "train %d: input time %r inside the interval is missing" % (k, t)
    return None


# ----------------------------------------------------------------------
# exact piecewise-linear model (C09).  A constant function is left == right.
# ----------------------------------------------------------------------
def F(x):
    return Fraction(x)


class PwModel(object):
    """x: breakpoints (Fractions, strictly increasing); l[k], r[k]: value at the
    left and right end of piece k"""

    def __init__(self, x, l, r):
        self.x = [F(v) for v in x]
        self.l = [F(v) for v in l]
        self.r = [F(v) for v in r]

    def copy(self):
        m = PwModel([], [], [])
        m.x, m.l, m.r = list(self.x), list(self.l), list(self.r)
        return m

    def _piece_vals(self, k, a, b):
        """values at a and b (a<=b inside piece k)"""
        x0, x1 = self.x[k], self.x[k + 1]
        sl = (self.r[k] - self.l[k]) / (x1 - x0)
        return self.l[k] + sl * (a - x0), self.l[k] + sl * (b - x0)

    def refine(self, xs):
        """same function on the breakpoint set xs (a superset of self.x)"""
        l, r = [], []
        k = 0
        for a, b in zip(xs, xs[1:]):
            while self.x[k + 1] <= a:
                k += 1
            va, vb = self._piece_vals(k, a, b)
            l.append(va)
            r.append(vb)
        m = PwModel([], [], [])
        m.x, m.l, m.r = list(xs), l, r
        return m

    def add(self, other):
        xs = sorted(set(self.x) | set(other.x))
        a = self.refine(xs)
        b = other.refine(xs)
        self.x = xs
        self.l = [u + v for u, v in zip(a.l, b.l)]
        self.r = [u + v for u, v in zip(a.r, b.r)]

    def scale(self, fac):
        fac = F(fac)
        self.l = [v * fac for v in self.l]
        self.r = [v * fac for v in self.r]

    def integral(self, a=None, b=None):
        a = self.x[0] if a is None else F(a)
        b = self.x[-1] if b is None else F(b)
        tot = F(0)
        for k in range(len(self.l)):
            lo = max(a, self.x[k])
            hi = min(b, self.x[k + 1])
            if hi > lo:
                va, vb = self._piece_vals(k, lo, hi)
                tot += (va + vb) / 2 * (hi - lo)
        return tot

    def value(self, t):
        """piece value; mean of the one-sided limits at an interior breakpoint;
        one-sided limit at the two end points"""
        t = F(t)
        if t == self.x[0]:
            return self.l[0]
        if t == self.x[-1]:
            return self.r[-1]
        for k in range(len(self.l)):
            if self.x[k] < t < self.x[k + 1]:
                return self._piece_vals(k, t, t)[0]
            if t == self.x[k + 1]:
                return (self.r[k] + self.l[k + 1]) / 2
        raise ValueError("time outside support")


# ----------------------------------------------------------------------
# discrete profile model (C11)
# ----------------------------------------------------------------------
class DiscModel(object):
    """events: dict time -> [value, multiplicity] (Fractions); edges t0, t1.
    An event may sit exactly on t0 or t1; the two framing edge entries of the
    array form are not part of the model."""

    def __init__(self, t0, t1, events=None):
        self.t0, self.t1 = F(t0), F(t1)
        self.ev = {}
        for t, y, mp in (events or []):
            self.ev[F(t)] = [F(y), F(mp)]

    def copy(self):
        m = DiscModel(self.t0, self.t1)
        m.ev = dict((t, list(v)) for t, v in self.ev.items())
        return m

    def add(self, other):
        for t, (y, mp) in other.ev.items():
            if t in self.ev:
                self.ev[t][0] += y
                self.ev[t][1] += mp
            else:
                self.ev[t] = [y, mp]

    def scale(self, fac):
        fac = F(fac)
        for v in self.ev.values():
            v[0] *= fac

    def times(self):
        return sorted(self.ev)

    def sums(self, iv=None):
        sv = sm = F(0)
        if iv is None:
            ivs = [None]
        elif isinstance(iv[0], (list, tuple)):
            ivs = iv
        else:
            ivs = [iv]
        for p in ivs:
            for t, (y, mp) in self.ev.items():
                if p is None or (F(p[0]) < t < F(p[1])):
                    sv += y
                    sm += mp
        return sv, sm


def smooth_model(x, y, mp, k):
    """plottable data of a discrete profile given as arrays (edge entries as
    found): values divided by multiplicities; with window k, for each entry the
    mean over its own unit contributions plus the nearest unit contributions on
    either side until (k+1)*mp[0] units are reached on that side (own units
    included in each side's count)."""
    n = len(x)
    if k <= 0:
        return [F(y[i]) / F(mp[i]) for i in range(n)]
    E = (k + 1) * int(mp[0])
    out = []
    for i in range(n):
        own = F(mp[i])
        if own >= E:
            out.append(F(y[i]) / own)
            continue
        tot = F(y[i])
        units = own
        for rng_ in (range(i + 1, n), range(i - 1, -1, -1)):
            got = own
            for j in rng_:
                take = min(F(mp[j]), E - got)
                if take <= 0:
                    break
                tot += F(y[j]) / F(mp[j]) * take
                got += take
                units += take
                if got >= E:
                    break
        out.append(tot / units)
    return out
