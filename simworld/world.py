"""The simulated world: real PySpike from the tree under test + simulator-owned seams.

Seams (none needs a change in /repo):
  * import seam  - builtins.__import__ decides, per executed import statement,
                   whether pyspike.cython.cython_* is "built" (stand-in module
                   returned) or "not built" (ModuleNotFoundError);
  * file seam    - simworld.simfs (installed by the io machine);
  * random seam  - np.random.exponential (installed by the gen machine);
  * stdout seam  - captured per operation.
"""
import builtins
import contextlib
import io
import os
import sys
import types

import numpy as np

from . import _rt
from .lower import lower, LoweringError

CY = ('cython_get_tau', 'cython_add', 'cython_profiles', 'cython_distances',
      'cython_directionality', 'cython_simulated_annealing')
CY_ABS = {'pyspike.cython.' + n: n for n in CY}
PYB_ABS = {'pyspike.cython.python_backend': 'python_backend',
           'pyspike.cython.directionality_python_backend': 'directionality_python_backend'}
# modules that cimport get_tau at C level: cannot be built if get_tau is not
NEEDS_GET_TAU = ('cython_profiles', 'cython_distances', 'cython_directionality')
# the four modules whose availability the fault plan decides (get_tau implied)
PLANNABLE = ('cython_add', 'cython_profiles', 'cython_distances', 'cython_directionality')


class HarnessError(Exception):
    pass


class BackendPlan(object):
    """Decides the outcome of every try-import of an extension module.

    available : set of short module names that are "built" for the whole run
    flips     : list of 0/1 decisions consumed in order, one per consulted
                import of a plannable module; when exhausted the static
                answer applies (so plans shrink by truncation).  A flip of 1
                inverts the static answer for that one import.
    """

    def __init__(self, available=(), flips=None, fail_exc='ModuleNotFoundError'):
        # 'ModuleNotFoundError': the extension was never built; 'ImportError': it is there but cannot be
        # loaded (ABI mismatch, undefined symbol) - both mean "not importable" to the try-import sites
        self.fail_exc = fail_exc
        self.available = set(available)
        if self.available & set(NEEDS_GET_TAU) or 'cython_get_tau' in self.available:
            self.available.add('cython_get_tau')
        self.flips = list(flips or [])
        self.pos = 0
        self.fired = {'import_fail': 0, 'import_ok': 0, 'import_flip': 0}

    def decide(self, short):
        ok = short in self.available
        if short in PLANNABLE and self.pos < len(self.flips):
            f = self.flips[self.pos]
            self.pos += 1
            if f:
                ok = not ok
                self.fired['import_flip'] += 1
        if short == 'cython_simulated_annealing':
            ok = False
        self.fired['import_ok' if ok else 'import_fail'] += 1
        return ok


ALL_COMPILED = ('cython_add', 'cython_profiles', 'cython_distances', 'cython_directionality')


class _Loader(object):
    def __init__(self, world, short):
        self.world, self.short = world, short

    def create_module(self, spec):
        return self.world.compiled[self.short]

    def exec_module(self, module):
        return None


class _Finder(object):
    """meta-path finder: answers for the six extension modules when an import reaches the import
    machinery without passing builtins.__import__ as patched (importlib.import_module bound at
    import time, importlib.util.find_spec, __import__ captured earlier, pkgutil ...)"""

    def __init__(self, world):
        self.world = world
        self.served = False

    def find_spec(self, name, path=None, target=None):
        short = CY_ABS.get(name)
        w = self.world
        if short is None or not w.installed:
            return None
        ok = w.plan.decide(short) and short in w.compiled
        if w.events is not None:
            w.events.append(('import', short, 'import machinery', 1 if ok else 0))
        if not ok:
            return None          # the real finders follow and do not find an unbuilt extension
        import importlib.machinery
        self.served = True
        return importlib.machinery.ModuleSpec(name, _Loader(w, short), origin=w.compiled[short].__file__)

    def invalidate_caches(self):
        return None


class _PkgProxy(object):
    """stands for the package `pyspike.cython` in `from pyspike.cython import cython_x`"""

    def __init__(self, real, mods):
        self.__dict__['_real'] = real
        self.__dict__['_mods'] = mods

    def __getattr__(self, name):
        mods = self.__dict__['_mods']
        if name in mods:
            return mods[name]
        return getattr(self.__dict__['_real'], name)


class World(object):
    def __init__(self, repo=None):
        repo = os.path.realpath(repo or os.environ.get('VERIF_REPO') or '/repo')
        self.repo = repo
        if 'pyspike' in sys.modules:
            raise HarnessError("pyspike imported before the world was built")
        sys.path.insert(0, repo)
        np.seterr(all='ignore')
        import warnings
        warnings.filterwarnings('ignore')
        self._real_import = builtins.__import__
        import pyspike
        here = os.path.realpath(os.path.dirname(pyspike.__file__))
        if here != os.path.join(repo, 'pyspike'):
            raise HarnessError("pyspike imported from %s, expected %s" % (here, repo))
        self.spk = pyspike
        # pyspike.disable_backend_warning is left as the library sets it (False until the first fallback):
        # the warning it prints is captured per operation, and a change that (mis)uses the flag as a
        # backend switch must see the values real processes see
        import pyspike.cython.python_backend as pb
        import pyspike.cython.directionality_python_backend as dpb
        self.pyb = {'python_backend': pb, 'directionality_python_backend': dpb}
        self.compiled = {}
        self.compiled_kind = 'stub'
        self.lowered_src = {}
        self.lowered_funcs = {}
        self.lowered_code = {}
        self._lower_all()
        self._baseline = None
        self.snapshot_state()
        self.plan = BackendPlan(())
        self.events = None        # list to append seam events to, or None
        self.shadow = None        # object with wrap(modshort, module) or None
        self._injected = []
        self._finder = None
        self.installed = False

    # ------------------------------------------------------------------
    def _lower_all(self):
        cydir = os.path.join(self.repo, 'pyspike', 'cython')
        _rt.CIMPORT.clear()
        self.lower_errors = []      # a kernel that cannot be lowered is "not built" for every plan, and
                                    # the check ends in exit 2 unless it found a violation anyway
        for short in CY:
            path = os.path.join(cydir, short + '.pyx')
            if not os.path.exists(path):
                self.lower_errors.append("HARNESS-ERROR cannot lower %s: file missing" % path)
                continue
            with open(path) as f:
                src = f.read()
            try:
                code, pysrc, funcs = lower(src, path)
            except LoweringError as e:
                self.lower_errors.append("HARNESS-ERROR %s" % e)
                continue
            mod = types.ModuleType('pyspike.cython.' + short)
            mod.__file__ = path
            mod.__dict__['_rt'] = _rt
            try:
                with self._plain_import():
                    exec(code, mod.__dict__)
            except Exception as e:  # pragma: no cover
                self.lower_errors.append("HARNESS-ERROR cannot load lowered %s: %r" % (path, e))
                continue
            self.compiled[short] = mod
            self.lowered_src[short] = pysrc
            self.lowered_funcs[short] = funcs
            self.lowered_code[short] = code
            _rt.CIMPORT['pyspike.cython.' + short] = mod

    # ------------------------------------------------------------------
    # process-restart emulation: every run starts from the module state PySpike has
    # right after import (memos, caches, mutated defaults, module flags do not leak
    # from one run into the next, so a replay in a fresh interpreter sees the same)
    def _state_modules(self):
        mods = [m for n, m in sorted(sys.modules.items())
                if (n == 'pyspike' or n.startswith('pyspike.')) and m is not None]
        mods += [self.compiled[k] for k in sorted(self.compiled)]
        return mods

    @staticmethod
    def _copy_container(v):
        import copy
        try:
            return copy.deepcopy(v)
        except Exception:
            return None

    def snapshot_state(self, assign=True):
        base = []
        for m in self._state_modules():
            names = dict(m.__dict__)
            cont = {}
            funcs = {}
            classes = {}
            for k, v in names.items():
                if isinstance(v, (dict, list, set, bytearray)) and not k.startswith('__'):
                    c = self._copy_container(v)
                    if c is not None:
                        cont[k] = c
                elif isinstance(v, types.FunctionType) and getattr(v, '__module__', None) == m.__name__:
                    funcs[k] = (dict(v.__dict__), self._copy_container(v.__defaults__),
                                self._copy_container(v.__kwdefaults__))
                elif isinstance(v, type) and getattr(v, '__module__', None) == m.__name__:
                    cattrs = {}
                    for ck, cv in list(v.__dict__.items()):
                        if isinstance(cv, (dict, list, set)) and not ck.startswith('__'):
                            cattrs[ck] = self._copy_container(cv)
                    classes[k] = (set(v.__dict__), cattrs)
            base.append((m, names, cont, funcs, classes))
        if assign:
            self._baseline = base
        return base

    def reset_state(self, base=None):
        import copy
        for m, names, cont, funcs, classes in (self._baseline if base is None else base):
            d = m.__dict__
            for k in list(d):
                if k not in names:
                    del d[k]
            for k, v in names.items():
                if d.get(k, None) is not v:
                    d[k] = v
                cc = getattr(v, 'cache_clear', None)
                if cc is not None and callable(cc):
                    try:
                        cc()
                    except Exception:
                        pass
            for k, c in cont.items():
                v = names[k]
                if v != c:
                    fresh = copy.deepcopy(c)
                    if isinstance(v, dict):
                        v.clear()
                        v.update(fresh)
                    elif isinstance(v, list):
                        v[:] = fresh
                    elif isinstance(v, set):
                        v.clear()
                        v.update(fresh)
                    elif isinstance(v, bytearray):
                        v[:] = fresh
            for k, (fd, dflt, kwd) in funcs.items():
                f = names[k]
                if f.__dict__ != fd:
                    f.__dict__.clear()
                    f.__dict__.update(fd)
                if dflt is not None and f.__defaults__ is not None:
                    try:
                        if f.__defaults__ != dflt:
                            f.__defaults__ = copy.deepcopy(dflt)
                    except Exception:
                        f.__defaults__ = copy.deepcopy(dflt)
                if kwd is not None and f.__kwdefaults__ != kwd:
                    f.__kwdefaults__ = copy.deepcopy(kwd)
            for k, (cnames, cattrs) in classes.items():
                cls = names[k]
                for ck in list(cls.__dict__):
                    if ck not in cnames:
                        try:
                            delattr(cls, ck)
                        except Exception:
                            pass
                for ck, cv in cattrs.items():
                    cur = cls.__dict__.get(ck)
                    if cur != cv:
                        try:
                            setattr(cls, ck, copy.deepcopy(cv))
                        except Exception:
                            pass

    @contextlib.contextmanager
    def _plain_import(self):
        cur = builtins.__import__
        builtins.__import__ = self._real_import
        try:
            yield
        finally:
            builtins.__import__ = cur

    # ------------------------------------------------------------------
    def _import(self, name, globals=None, locals=None, fromlist=(), level=0):
        if level > 0 and globals is not None:
            pkg = globals.get('__package__')
            if pkg is None:
                pkg = globals.get('__name__', '')
                if '__path__' not in globals:
                    pkg = pkg.rpartition('.')[0]
            if level > 1:
                pkg = pkg.rsplit('.', level - 1)[0]
            absname = pkg + '.' + name if name else pkg
        else:
            absname = name
        if self._finder is not None and self._finder.served:
            self._finder.served = False
            self._purge_cached()
        short = CY_ABS.get(absname)
        if short is not None:
            mod = self._decide_module(short, absname, sys._getframe(1).f_code.co_name)
            if not fromlist:
                # plain `import pyspike.cython.cython_x`: the statement binds the top-level package and
                # reaches the module by attribute; make it reachable for the rest of this run only
                pkg = sys.modules['pyspike.cython']
                setattr(pkg, short, mod)
                self._injected.append((pkg, short))
                return sys.modules['pyspike']
            return mod
        if absname == 'pyspike.cython' and fromlist and any(n in CY for n in fromlist):
            # `from pyspike.cython import cython_x` / `from . import cython_x`
            real = self._real_import('pyspike.cython', None, None, ('__name__',), 0)
            got = {}
            for n in fromlist:
                if n in CY:
                    got[n] = self._decide_module(n, 'pyspike.cython.' + n, sys._getframe(1).f_code.co_name,
                                                 as_name=True)
            return _PkgProxy(real, got)
        if self.shadow is not None and absname in PYB_ABS and fromlist:
            return self.shadow.wrap(PYB_ABS[absname], self.pyb[PYB_ABS[absname]])
        return self._real_import(name, globals, locals, fromlist, level)

    def _decide_module(self, short, absname, site, as_name=False):
        ok = self.plan.decide(short) and short in self.compiled
        if self.events is not None:
            self.events.append(('import', short, site, 1 if ok else 0))
        if not ok:
            if as_name:
                raise ImportError("cannot import name %r from 'pyspike.cython'" % short, name='pyspike.cython')
            if getattr(self.plan, 'fail_exc', '') == 'ImportError':
                self.plan.fired['import_error_plain'] = self.plan.fired.get('import_error_plain', 0) + 1
                raise ImportError("%s: undefined symbol (simulated: extension present but not loadable)" % absname,
                                  name=absname)
            raise ModuleNotFoundError("No module named %r" % absname, name=absname)
        mod = self.compiled[short]
        if self.shadow is not None:
            mod = self.shadow.wrap(short, mod)
        return mod

    def _purge_cached(self):
        """imports that reached the machinery through the meta-path finder were cached by the
        interpreter; forget them so that the plan is consulted again"""
        for absname, short in CY_ABS.items():
            if absname in sys.modules:
                del sys.modules[absname]
                pkg = sys.modules.get('pyspike.cython')
                if pkg is not None and short in pkg.__dict__ and (pkg, short) not in self._injected:
                    try:
                        delattr(pkg, short)
                    except AttributeError:
                        pass

    def install(self):
        if not self.installed:
            builtins.__import__ = self._import
            if self._finder is None:
                self._finder = _Finder(self)
            if self._finder not in sys.meta_path:
                sys.meta_path.insert(0, self._finder)
            self._injected = []
            self.installed = True

    def uninstall(self):
        if self.installed:
            builtins.__import__ = self._real_import
            if self._finder in sys.meta_path:
                sys.meta_path.remove(self._finder)
            self._purge_cached()
            for pkg, name in self._injected:
                try:
                    delattr(pkg, name)
                except AttributeError:
                    pass
            self._injected = []
            self.installed = False

    @contextlib.contextmanager
    def run_context(self, plan, events=None, shadow=None):
        self.plan, self.events, self.shadow = plan, events, shadow
        self.install()
        try:
            yield self
        finally:
            self.uninstall()
            self.events, self.shadow = None, None

    def components(self):
        real = ["pyspike/*.py (tree under test: %s)" % self.repo,
                "pyspike/cython/python_backend.py", "pyspike/cython/directionality_python_backend.py",
                "numpy", "CPython io stack (TextIOWrapper, BufferedWriter/Reader)"]
        stub = ["pyspike/cython/*.pyx lowered to Python at check time (no Cython compiler offline): "
                "same statements, same IEEE doubles, no C int overflow / out-of-bounds reads / GIL release"]
        sim = ["import outcome of pyspike.cython.cython_* (builtins.__import__)",
               "raw file device under pyspike.spikes.open", "np.random.exponential", "sys.stdout"]
        return {'real': real, 'stub': stub, 'simulated': sim}


@contextlib.contextmanager
def captured_stdout():
    old = sys.stdout
    buf = io.StringIO()
    sys.stdout = buf
    try:
        yield buf
    finally:
        sys.stdout = old
