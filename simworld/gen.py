"""Generators shared by the machines (DESIGN.md 3.7).  Everything is drawn from
the run's single random.Random; all values are plain floats/ints/strings so the
generated operation lists are JSON-serialisable as they are."""

T0S = [0.0, -2.0, 1.5, 100.0]
TS = [1.0, 2.0, 4.0, 8.0, 10.0]


def gen_wp(rng):
    """world parameters of a run: interval, time mode, grid"""
    t0 = rng.choice(T0S)
    T = rng.choice(TS)
    r = rng.random()
    # grid: dyadic steps, exact arithmetic, exact ties; decimal: multiples of 0.1 / 0.05 as users write them,
    # where mathematically equal expressions round differently; float: uniform doubles
    mode = 'grid' if r < 0.5 else 'decimal' if r < 0.65 else 'float'
    G = rng.choice([16, 32])
    return {'t0': t0, 'T': T, 'mode': mode, 'G': G}


def edges(wp):
    return [wp['t0'], wp['t0'] + wp['T']]


def gen_time(rng, wp):
    if wp['mode'] == 'grid':
        return wp['t0'] + rng.randrange(0, wp['G'] + 1) * (wp['T'] / wp['G'])
    if wp['mode'] == 'decimal':
        d = 10.0 if wp['T'] > 1 else 20.0
        t = wp['t0'] + rng.randrange(0, int(wp['T'] * d) + 1) / d
        return min(max(t, wp['t0']), wp['t0'] + wp['T'])
    return wp['t0'] + rng.random() * wp['T']


def gen_count(rng, nmax=8):
    r = rng.random()
    if r < 0.17:
        return 0
    if r < 0.34:
        return 1
    if r < 0.46:
        return 2
    return rng.randint(3, nmax)


def gen_spikes(rng, wp, n=None, nmax=8):
    """sorted, duplicate-free spike times inside [t0, t0+T]"""
    if n is None:
        n = gen_count(rng, nmax)
    t0, t1 = edges(wp)
    s = set()
    for _ in range(n):
        r = rng.random()
        if r < 0.08:
            s.add(t0)
        elif r < 0.16:
            s.add(t1)
        else:
            s.add(gen_time(rng, wp))
    return sorted(s)


def jitter(rng, wp, xs, keep_ends=False):
    """a nearly-equal copy: every time moved by a tiny amount (1e-12 .. 1e-5 of its magnitude),
    order and the interval preserved; exposes tolerance-based comparisons where exact ones are meant"""
    t0, t1 = edges(wp)
    out = []
    import math
    scale = rng.choice([1e-12, 1e-9, 1e-7, 3e-6, 1e-5, 'ulp'])
    for k, t in enumerate(xs):
        if keep_ends and (k == 0 or k == len(xs) - 1):
            out.append(t)
            continue
        if scale == 'ulp':
            # the adjacent double (0.3 vs 0.1+0.2); not around 0.0, where the neighbour is a denormal
            # (5e-324): time differences below ~1e-150 are outside the range in which ISI**2 is
            # representable (known finding `underflow-scale`, DESIGN.md section 9)
            v = math.nextafter(t, rng.choice([-math.inf, math.inf, math.inf])) \
                if (rng.random() < 0.7 and abs(t) > 1e-100) else t
        else:
            d = rng.choice([-1.0, 1.0, 0.0, 1.0]) * scale * max(1.0, abs(t)) * rng.random()
            v = t + d
        v = min(max(v, t0), t1)
        out.append(v)
    out = sorted(set(out))
    return out


def gen_long(rng, wp):
    """a train of 258..420 spikes: beyond CPython's small-int cache (an `is` on a spike index), numpy's
    summary printing threshold is at 1000, typical block sizes at powers of two"""
    t0, t1 = edges(wp)
    n = rng.randint(258, 420)
    s = set(t0 + rng.random() * wp['T'] * rng.choice([1.0, 1.0, 0.9]) for _ in range(n))
    if rng.random() < 0.3:
        s.add(t1)
    if rng.random() < 0.2:
        s.add(t0)
    return sorted(s)


def gen_pool(rng, wp, nmin=2, nmax=6, nspk=8, long_p=0.0):
    """list of valid trains on the common interval, with copies / near-copies / shared spikes"""
    n = rng.randint(nmin, nmax)
    pool = []
    if long_p and rng.random() < long_p:
        pool.append(gen_long(rng, wp))
        n = max(1, min(n, 3) - 1)
    for k in range(n):
        r = rng.random()
        if pool and r < 0.05:
            pool.append(jitter(rng, wp, rng.choice(pool)))
        elif pool and r < 0.12:
            pool.append(list(rng.choice(pool)))
        elif pool and r < 0.22:
            base = list(rng.choice(pool))
            if base:
                base[rng.randrange(len(base))] = gen_time(rng, wp)
            pool.append(sorted(set(base)))
        elif pool and r < 0.32:
            # share some spikes with an earlier train
            base = [t for t in rng.choice(pool) if rng.random() < 0.5]
            pool.append(sorted(set(base + gen_spikes(rng, wp, nmax=max(2, nspk // 2)))))
        else:
            pool.append(gen_spikes(rng, wp, nmax=nspk))
    return pool


def gen_degenerate_pool(rng, wp, nmin=2, nmax=6):
    """pool biased to the degenerate shapes C18 names, at every list position"""
    t0, t1 = edges(wp)
    n = rng.randint(nmin, nmax)
    pool = []
    for k in range(n):
        r = rng.random()
        if r < 0.22:
            pool.append([])
        elif r < 0.34:
            pool.append([t0])
        elif r < 0.46:
            pool.append([t1])
        elif r < 0.56:
            pool.append([gen_time(rng, wp)])
        elif r < 0.62:
            pool.append([t0, t1])
        elif r < 0.74 and pool:
            pool.append(list(rng.choice(pool)))
        else:
            pool.append(gen_spikes(rng, wp))
    return pool


def gen_mrts(rng, wp, allow_auto=True):
    """returns (present, value)"""
    T = wp['T']
    opts = ['omit', 0.0, T / 32, T / 4, T, 3 * T]
    if allow_auto:
        opts.append('auto')
    return rng.choice(opts)


def gen_max_tau(rng, wp):
    T = wp['T']
    return rng.choice(['omit', None, 0.0, T / 32, T / 8, T, 3 * T])


def gen_kw(rng, wp, family, allow_auto=True, no_reconcile=False):
    """keyword dict for a measure family: 'isi', 'spike', 'sync', 'order', 'dir'"""
    kw = {}
    m = gen_mrts(rng, wp, allow_auto)
    if m != 'omit':
        kw['MRTS'] = m
    if family == 'spike':
        ri = rng.choice(['omit', False, True])
        if ri != 'omit':
            kw['RI'] = ri
    if family in ('sync', 'order', 'dir'):
        mt = gen_max_tau(rng, wp)
        if mt != 'omit':
            kw['max_tau'] = mt
    if no_reconcile and rng.random() < 0.12:
        kw['Reconcile'] = False     # legitimate on valid input (C13: same result as the default)
    if rng.random() < 0.3:
        # the Python types a caller may use for the same values
        kw['__ty'] = {'MRTS': rng.choice(['float', 'int', 'npfloat', 'np0d']),
                      'max_tau': rng.choice(['float', 'int', 'npfloat']),
                      'interval': rng.choice(['list', 'tuple', 'listoftuples']),
                      'indices': rng.choice(['list', 'tuple', 'arr'])}
    return kw


def gen_interval(rng, wp, spikes_flat):
    """None or [a,b] with t0 <= a < b <= t1, or a list of such pairs"""
    t0, t1 = edges(wp)
    T = wp['T']
    r = rng.random()
    if r < 0.3:
        return None

    def one():
        q = rng.random()
        g = T / wp['G']
        if q < 0.25:
            a = t0 + rng.randrange(0, wp['G']) * g
            b = a + rng.randrange(1, wp['G'] + 1) * g
        elif q < 0.5:
            a = t0 + (rng.randrange(0, wp['G']) + 0.5) * g
            b = a + (rng.randrange(0, wp['G']) + 0.5) * g
        elif q < 0.62:
            a = t0 + rng.random() * T
            b = a + rng.random() * g * 0.5 + 1e-3 * T
        elif q < 0.74:
            a = t0
            b = t0 + rng.random() * T
        elif q < 0.86:
            b = t1
            a = t0 + rng.random() * T
        elif spikes_flat and q < 0.95:
            a = rng.choice(spikes_flat)
            b = rng.choice(spikes_flat)
        else:
            a, b = t0, t1
        if a > b:
            a, b = b, a
        a = max(t0, a)
        b = min(t1, b)
        if not b - a >= 1e-4 * T:
            # intervals shorter than 1e-4 of the recording are not generated: the averages divide a
            # difference of O(1) products by the interval length, so the comparison tolerance
            # (1e-9) would be eaten by cancellation, not by a defect
            a, b = t0, t1
        return [a, b]
    if r < 0.9:
        return one()
    # two disjoint intervals
    x = one()
    mid = x[0] + (x[1] - x[0]) / 2
    return [[x[0], mid], [mid, x[1]]] if rng.random() < 0.5 else [one(), one()]


def gen_sel(rng, n, kmin=2, kmax=None, ordered=False):
    """a selection of k distinct indices of range(n), in arbitrary order"""
    kmax = min(n, kmax or n)
    k = rng.randint(kmin, kmax)
    sel = rng.sample(range(n), k)
    if ordered:
        sel.sort()
    return sel
