"""Runtime support for lowered .pyx modules: C scalar semantics on numpy scalars."""
import math
import numpy as np

_f64 = np.float64


def c_double(v):
    return _f64(v)


def c_int(v):
    # C conversion double -> int truncates toward zero; bool -> 0/1
    return int(v)


def to_py(v):
    """How Cython boxes C values returned from a `def` function."""
    if isinstance(v, tuple):
        return tuple(to_py(x) for x in v)
    if isinstance(v, np.floating):
        return float(v)
    if isinstance(v, np.integer):
        return int(v)
    if type(v) is Checked:
        return v.view(np.ndarray)
    return v


class KernelIndexError(Exception):
    """an index outside the buffer: undefined behaviour under boundscheck=False / wraparound=False"""


class Checked(np.ndarray):
    """ndarray view that refuses what C would not forgive: negative or out-of-range integer indices"""

    def _chk(self, k):
        if isinstance(k, (int, np.integer)) and not isinstance(k, bool):
            if k < 0 or k >= self.shape[0]:
                raise KernelIndexError("index %d outside buffer of length %d" % (k, self.shape[0]))
        elif isinstance(k, tuple):
            for d, kk in enumerate(k):
                if isinstance(kk, (int, np.integer)) and (kk < 0 or kk >= self.shape[d]):
                    raise KernelIndexError("index %d outside axis %d of length %d" % (kk, d, self.shape[d]))

    def __getitem__(self, k):
        self._chk(k)
        return np.ndarray.__getitem__(self, k)

    def __setitem__(self, k, v):
        self._chk(k)
        np.ndarray.__setitem__(self, k, v)


AUDIT = [False]


def as_memview(a, nd, ty):
    """Cython's typed-memoryview acquisition check (dtype, rank)."""
    if not isinstance(a, np.ndarray):
        if isinstance(a, (list, tuple, int, float)) or a is None:
            raise TypeError("a bytes-like object is required, not %r" % type(a).__name__)
        a = np.asarray(a)
    want = np.float64 if ty in ('double',) else np.int64
    if a.dtype != want:
        raise ValueError("Buffer dtype mismatch, expected %r but got %r" % (ty, str(a.dtype)))
    if a.ndim != nd:
        raise ValueError("Buffer has wrong number of dimensions (expected %d, got %d)" % (nd, a.ndim))
    if AUDIT[0] and type(a) is not Checked:
        return a.view(Checked)
    return a


def fabs(x):
    return _f64(abs(x))


def fmax(a, b):
    a = _f64(a)
    b = _f64(b)
    if a != a:
        return b
    if b != b:
        return a
    return a if a > b else b


def fmin(a, b):
    a = _f64(a)
    b = _f64(b)
    if a != a:
        return b
    if b != b:
        return a
    return a if a < b else b


def exp(x):
    try:
        return _f64(math.exp(x))
    except OverflowError:
        return _f64(np.inf)


def fmod(a, b):
    return _f64(math.fmod(a, b))


RAND_MAX = 2147483647
_rand_source = None


def set_rand_source(rng):
    global _rand_source
    _rand_source = rng


def rand():
    if _rand_source is None:
        raise RuntimeError("libc rand() used without a simulator-owned source")
    return _rand_source.randrange(RAND_MAX + 1)


# filled by the world: absolute module name -> lowered module
CIMPORT = {}


def cimport(mod, name):
    if mod.startswith('libc.'):
        return globals()[name]
    return getattr(CIMPORT[mod], name)
