"""Runtime support for lowered .pyx modules: C scalar semantics on numpy scalars."""
import math
import numpy as np

_f64 = np.float64


def c_double(v):
    return _f64(v)


def c_int(v):
    # C conversion double -> int truncates toward zero; bool -> 0/1
    return int(v)


def to_py(v):
    """How Cython boxes C values returned from a `def` function."""
    if isinstance(v, tuple):
        return tuple(to_py(x) for x in v)
    if isinstance(v, np.floating):
        return float(v)
    if isinstance(v, np.integer):
        return int(v)
    return v


def as_memview(a, nd, ty):
    """Cython's typed-memoryview acquisition check (dtype, rank)."""
    if not isinstance(a, np.ndarray):
        if isinstance(a, (list, tuple, int, float)) or a is None:
            raise TypeError("a bytes-like object is required, not %r" % type(a).__name__)
        a = np.asarray(a)
    want = np.float64 if ty in ('double',) else np.int64
    if a.dtype != want:
        raise ValueError("Buffer dtype mismatch, expected %r but got %r" % (ty, str(a.dtype)))
    if a.ndim != nd:
        raise ValueError("Buffer has wrong number of dimensions (expected %d, got %d)" % (nd, a.ndim))
    return a


def fabs(x):
    return _f64(abs(x))


def fmax(a, b):
    a = _f64(a)
    b = _f64(b)
    if a != a:
        return b
    if b != b:
        return a
    return a if a > b else b


def fmin(a, b):
    a = _f64(a)
    b = _f64(b)
    if a != a:
        return b
    if b != b:
        return a
    return a if a < b else b


def exp(x):
    try:
        return _f64(math.exp(x))
    except OverflowError:
        return _f64(np.inf)


def fmod(a, b):
    return _f64(math.fmod(a, b))


RAND_MAX = 2147483647
_rand_source = None


def set_rand_source(rng):
    global _rand_source
    _rand_source = rng


def rand():
    if _rand_source is None:
        raise RuntimeError("libc rand() used without a simulator-owned source")
    return _rand_source.randrange(RAND_MAX + 1)


# filled by the world: absolute module name -> lowered module
CIMPORT = {}


def cimport(mod, name):
    if mod.startswith('libc.'):
        return globals()[name]
    return getattr(CIMPORT[mod], name)
