"""Simulated raw file device under CPython's real buffer and text layers.

`SimFS.open` has the signature of the builtin `open` for the modes PySpike uses
and is installed as the module global `pyspike.spikes.open`.  It returns
io.TextIOWrapper(io.BufferedWriter|BufferedReader(SimRaw)): the text and
buffer layers are CPython's own; only the raw device and its faults are
simulated.  Every raw call (open, write, readinto, close) consumes one decision
of the fault plan; an exhausted plan means "no fault"."""
import errno as _errno
import io
import os


class SimCrash(BaseException):
    """the simulated process dies here: nothing after this point reaches the disk"""


class IOPlan(object):
    def __init__(self, decisions=None):
        self.decisions = list(decisions or [])
        self.pos = 0
        self.fired = {'short_write': 0, 'short_read': 0, 'write_error': 0, 'read_error': 0,
                      'close_error': 0, 'open_error': 0, 'crash': 0, 'raw_calls': 0}
        self.log = []

    def next(self, call):
        self.fired['raw_calls'] += 1
        if self.pos < len(self.decisions):
            d = self.decisions[self.pos]
            self.pos += 1
        else:
            d = ['ok']
        self.log.append((call, d[0]))
        return d


class Disk(object):
    def __init__(self):
        self.files = {}


class SimRaw(io.RawIOBase):
    def __init__(self, fs, path, mode):
        io.RawIOBase.__init__(self)
        self.fs, self.path, self.mode = fs, path, mode
        self.pos = 0
        self.dead = False
        self.last_write_start = None
        if 'w' in mode:
            fs.disk.files[path] = bytearray()

    def readable(self):
        return 'r' in self.mode

    def writable(self):
        return 'w' in self.mode

    def seekable(self):
        return False

    def write(self, b):
        n = len(b)
        if self.dead:
            return n
        if n == 0:
            return 0
        d = self.fs.plan.next('write')
        kind = d[0]
        data = bytes(b)
        if kind == 'crash':
            self.fs.plan.fired['crash'] += 1
            keep = int(d[1] * n) if len(d) > 1 else 0
            self.fs.disk.files[self.path] += data[:keep]
            self.dead = True
            self.fs.crashed = True
            raise SimCrash()
        if kind == 'err':
            self.fs.plan.fired['write_error'] += 1
            raise OSError(d[1], os.strerror(d[1]))
        if kind == 'short' and n > 1:
            k = max(1, min(n - 1, int(d[1] * n)))
            self.fs.plan.fired['short_write'] += 1
            self.last_write_start = len(self.fs.disk.files[self.path])
            self.fs.disk.files[self.path] += data[:k]
            return k
        self.last_write_start = len(self.fs.disk.files[self.path])
        self.fs.disk.files[self.path] += data
        return n

    def readinto(self, b):
        d = self.fs.plan.next('read')
        kind = d[0]
        if kind == 'err':
            self.fs.plan.fired['read_error'] += 1
            raise OSError(d[1], os.strerror(d[1]))
        data = self.fs.disk.files[self.path]
        n = min(len(b), len(data) - self.pos)
        if kind == 'short' and n > 1:
            n = max(1, min(n - 1, int(d[1] * n)))
            self.fs.plan.fired['short_read'] += 1
        b[:n] = data[self.pos:self.pos + n]
        self.pos += n
        return n

    def close(self):
        if self.closed:
            return
        io.RawIOBase.close(self)
        if self.dead:
            return
        d = self.fs.plan.next('close')
        if d[0] == 'err' and 'w' in self.mode:
            # deferred write error reported at close: the last accepted chunk never reached the medium
            self.fs.plan.fired['close_error'] += 1
            if self.last_write_start is not None:
                del self.fs.disk.files[self.path][self.last_write_start:]
            raise OSError(d[1], os.strerror(d[1]))


class SimFS(object):
    def __init__(self, plan=None, buffer_size=8192, chunk=8192, write_through=False, linesep='\n'):
        self.disk = Disk()
        self.plan = plan or IOPlan()
        self.buffer_size, self.chunk = buffer_size, chunk
        self.write_through, self.linesep = write_through, linesep
        self.crashed = False

    def open(self, file, mode='r', buffering=-1, encoding=None, errors=None, newline=None, closefd=True,
             opener=None):
        if not isinstance(file, str):
            raise TypeError("simfs: path must be str, got %r" % type(file).__name__)
        mode_ = mode.replace('t', '')
        if mode_ not in ('r', 'w'):
            raise ValueError("simfs: unsupported mode %r" % mode)
        d = self.plan.next('open')
        if d[0] == 'err':
            self.plan.fired['open_error'] += 1
            raise OSError(d[1], os.strerror(d[1]), file)
        if mode_ == 'r' and file not in self.disk.files:
            raise FileNotFoundError(_errno.ENOENT, os.strerror(_errno.ENOENT), file)
        raw = SimRaw(self, file, mode_)
        bs = self.buffer_size if buffering in (-1, None) else max(1, buffering)
        if mode_ == 'w':
            buf = io.BufferedWriter(raw, buffer_size=bs)
            # builtin open(newline=None) writes os.linesep; the platform is a simulator knob
            nl = self.linesep if newline is None else newline
            f = io.TextIOWrapper(buf, encoding=encoding or 'utf-8', errors=errors, newline=nl,
                                 write_through=self.write_through)
        else:
            buf = io.BufferedReader(raw, buffer_size=bs)
            f = io.TextIOWrapper(buf, encoding=encoding or 'utf-8', errors=errors, newline=newline)
        try:
            f._CHUNK_SIZE = max(1, self.chunk)
        except Exception:
            pass
        return f

    # direct (fault-free) access for the harness
    def put(self, path, data):
        self.disk.files[path] = bytearray(data)

    def get(self, path):
        return bytes(self.disk.files.get(path, b''))
