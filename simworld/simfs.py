"""Simulated raw file device under CPython's real buffer and text layers.

`SimFS.open` has the signature of the builtin `open` for the modes PySpike uses
and is installed as the module global `pyspike.spikes.open`.  It returns
io.TextIOWrapper(io.BufferedWriter|BufferedReader(SimRaw)): the text and
buffer layers are CPython's own; only the raw device and its faults are
simulated.  Every raw call (open, write, readinto, close) consumes one decision
of the fault plan; an exhausted plan means "no fault"."""
import errno as _errno
import io
import os


class SimCrash(BaseException):
    """the simulated process dies here: nothing after this point reaches the disk"""


class IOPlan(object):
    def __init__(self, decisions=None):
        self.decisions = list(decisions or [])
        self.pos = 0
        self.fired = {'short_write': 0, 'short_read': 0, 'write_error': 0, 'read_error': 0,
                      'close_error': 0, 'open_error': 0, 'crash': 0, 'raw_calls': 0}
        self.log = []

    def next(self, call):
        self.fired['raw_calls'] += 1
        if self.pos < len(self.decisions):
            d = self.decisions[self.pos]
            self.pos += 1
        else:
            d = ['ok']
        self.log.append((call, d[0]))
        return d


class Disk(object):
    def __init__(self):
        self.files = {}


ROOT = '/simfs/'


class SimRaw(io.RawIOBase):
    def __init__(self, fs, path, mode, truncate=True, append=False):
        io.RawIOBase.__init__(self)
        self.fs, self.path, self.mode = fs, path, mode
        self.pos = 0
        self.dead = False
        self.last_write_start = None
        self.append = append
        if 'w' in mode:
            if truncate or path not in fs.disk.files:
                fs.disk.files[path] = bytearray()
            if append:
                self.pos = len(fs.disk.files[path])

    def _put(self, data):
        buf = self.fs.disk.files[self.path]
        if self.append:
            self.pos = len(buf)
        self.last_write_start = self.pos
        buf[self.pos:self.pos + len(data)] = data
        self.pos += len(data)

    def readable(self):
        return 'r' in self.mode

    def writable(self):
        return 'w' in self.mode

    def seekable(self):
        return False

    def write(self, b):
        n = len(b)
        if self.dead:
            return n
        if n == 0:
            return 0
        d = self.fs.plan.next('write')
        kind = d[0]
        data = bytes(b)
        if kind == 'crash':
            self.fs.plan.fired['crash'] += 1
            keep = int(d[1] * n) if len(d) > 1 else 0
            self._put(data[:keep])
            self.dead = True
            self.fs.crashed = True
            raise SimCrash()
        if kind == 'err':
            self.fs.plan.fired['write_error'] += 1
            raise OSError(d[1], os.strerror(d[1]))
        if kind == 'short' and n > 1:
            k = max(1, min(n - 1, int(d[1] * n)))
            self.fs.plan.fired['short_write'] += 1
            self._put(data[:k])
            return k
        self._put(data)
        return n

    def readinto(self, b):
        d = self.fs.plan.next('read')
        kind = d[0]
        if kind == 'err':
            self.fs.plan.fired['read_error'] += 1
            raise OSError(d[1], os.strerror(d[1]))
        data = self.fs.disk.files[self.path]
        n = min(len(b), len(data) - self.pos)
        if kind == 'short' and n > 1:
            n = max(1, min(n - 1, int(d[1] * n)))
            self.fs.plan.fired['short_read'] += 1
        b[:n] = data[self.pos:self.pos + n]
        self.pos += n
        return n

    def close(self):
        if self.closed:
            return
        io.RawIOBase.close(self)
        if self.dead:
            return
        d = self.fs.plan.next('close')
        if d[0] == 'err' and 'w' in self.mode:
            # deferred write error reported at close: the last accepted chunk never reached the medium
            self.fs.plan.fired['close_error'] += 1
            if self.last_write_start is not None and self.path in self.fs.disk.files:
                del self.fs.disk.files[self.path][self.last_write_start:]
            raise OSError(d[1], os.strerror(d[1]))


class SimFS(object):
    def __init__(self, plan=None, buffer_size=8192, chunk=8192, write_through=False, linesep='\n'):
        self.disk = Disk()
        self.plan = plan or IOPlan()
        self.buffer_size, self.chunk = buffer_size, chunk
        self.write_through, self.linesep = write_through, linesep
        self.crashed = False

    def open(self, file, mode='r', buffering=-1, encoding=None, errors=None, newline=None, closefd=True,
             opener=None, _raw=None):
        if hasattr(file, '__fspath__'):
            file = os.fspath(file)
        if not isinstance(file, str):
            raise TypeError("simfs: path must be str, got %r" % type(file).__name__)
        binary = 'b' in mode
        mode_ = mode.replace('t', '').replace('b', '')
        if mode_ not in ('r', 'w', 'a', 'x'):
            raise ValueError("simfs: unsupported mode %r" % mode)
        if _raw is None:
            d = self.plan.next('open')
            if d[0] == 'err':
                self.plan.fired['open_error'] += 1
                raise OSError(d[1], os.strerror(d[1]), file)
            if mode_ == 'r' and file not in self.disk.files:
                raise FileNotFoundError(_errno.ENOENT, os.strerror(_errno.ENOENT), file)
            if mode_ == 'x' and file in self.disk.files:
                raise FileExistsError(_errno.EEXIST, os.strerror(_errno.EEXIST), file)
            raw = SimRaw(self, file, 'r' if mode_ == 'r' else 'w', truncate=mode_ in ('w', 'x'),
                         append=mode_ == 'a')
        else:
            raw = _raw
        if mode_ != 'r':
            mode_ = 'w'
        bs = self.buffer_size if buffering in (-1, None) else max(1, buffering)
        if binary:
            if buffering == 0:
                return raw
            return io.BufferedWriter(raw, buffer_size=bs) if mode_ == 'w' else io.BufferedReader(raw, buffer_size=bs)
        if mode_ == 'w':
            buf = io.BufferedWriter(raw, buffer_size=bs)
            # builtin open(newline=None) writes os.linesep; the platform is a simulator knob
            nl = self.linesep if newline is None else newline
            f = io.TextIOWrapper(buf, encoding=encoding or 'utf-8', errors=errors, newline=nl,
                                 write_through=self.write_through)
        else:
            buf = io.BufferedReader(raw, buffer_size=bs)
            f = io.TextIOWrapper(buf, encoding=encoding or 'utf-8', errors=errors, newline=newline)
        try:
            f._CHUNK_SIZE = max(1, self.chunk)
        except Exception:
            pass
        return f

    # ------------------------------------------------------------------
    # interception of the other ways a library can reach a file: builtins.open, io.open,
    # os.open / os.fdopen / os.write / os.close, os.path.exists, os.remove, os.rename, os.replace.
    # Paths under /simfs/ (and simulated descriptors) go to the simulated disk, everything
    # else to the real functions.
    def install(self):
        import builtins
        fs = self
        self._saved = {
            'bopen': builtins.open, 'ioopen': io.open, 'osopen': os.open, 'fdopen': os.fdopen,
            'oswrite': os.write, 'osclose': os.close, 'fsync': os.fsync, 'exists': os.path.exists,
            'isfile': os.path.isfile, 'remove': os.remove, 'unlink': os.unlink, 'rename': os.rename,
            'replace': os.replace, 'getsize': os.path.getsize,
        }
        sv = self._saved
        self.fds = {}
        self._next_fd = [1000000]

        def is_sim(p):
            try:
                p = os.fspath(p)
            except TypeError:
                return False
            return isinstance(p, str) and p.startswith(ROOT)

        def _open(file, mode='r', *a, **kw):
            if isinstance(file, int) and file in fs.fds:
                return fs.open(fs.fds[file].path, mode, *a, _raw=fs.fds.pop(file), **kw)
            if is_sim(file):
                return fs.open(file, mode, *a, **kw)
            return sv['bopen'](file, mode, *a, **kw)

        def _osopen(path, flags, mode=0o777, *a, **kw):
            if not is_sim(path):
                return sv['osopen'](path, flags, mode, *a, **kw)
            path = os.fspath(path)
            d = fs.plan.next('open')
            if d[0] == 'err':
                fs.plan.fired['open_error'] += 1
                raise OSError(d[1], os.strerror(d[1]), path)
            acc = flags & (os.O_RDONLY | os.O_WRONLY | os.O_RDWR)
            exists = path in fs.disk.files
            if flags & os.O_CREAT:
                if exists and flags & os.O_EXCL:
                    raise FileExistsError(_errno.EEXIST, os.strerror(_errno.EEXIST), path)
            elif not exists:
                raise FileNotFoundError(_errno.ENOENT, os.strerror(_errno.ENOENT), path)
            if acc == os.O_RDONLY:
                raw = SimRaw(fs, path, 'r')
            else:
                raw = SimRaw(fs, path, 'w', truncate=bool(flags & os.O_TRUNC), append=bool(flags & os.O_APPEND))
            fd = fs._next_fd[0]
            fs._next_fd[0] += 1
            fs.fds[fd] = raw
            return fd

        def _fdopen(fd, *a, **kw):
            if fd in fs.fds:
                return _open(fd, *a, **kw)
            return sv['fdopen'](fd, *a, **kw)

        def _oswrite(fd, data):
            if fd in fs.fds:
                return fs.fds[fd].write(data)
            return sv['oswrite'](fd, data)

        def _osclose(fd):
            if fd in fs.fds:
                return fs.fds.pop(fd).close()
            return sv['osclose'](fd)

        def _fsync(fd):
            if fd in fs.fds:
                return None
            return sv['fsync'](fd)

        def _exists(p):
            return (os.fspath(p) in fs.disk.files) if is_sim(p) else sv['exists'](p)

        def _isfile(p):
            return (os.fspath(p) in fs.disk.files) if is_sim(p) else sv['isfile'](p)

        def _getsize(p):
            return len(fs.disk.files[os.fspath(p)]) if is_sim(p) else sv['getsize'](p)

        def _remove(p, *a, **kw):
            if is_sim(p):
                if os.fspath(p) not in fs.disk.files:
                    raise FileNotFoundError(_errno.ENOENT, os.strerror(_errno.ENOENT), p)
                del fs.disk.files[os.fspath(p)]
                return None
            return sv['remove'](p, *a, **kw)

        def _rename(a, b, *x, **kw):
            if is_sim(a) or is_sim(b):
                a, b = os.fspath(a), os.fspath(b)
                if a not in fs.disk.files:
                    raise FileNotFoundError(_errno.ENOENT, os.strerror(_errno.ENOENT), a)
                fs.disk.files[b] = fs.disk.files.pop(a)
                return None
            return sv['rename'](a, b, *x, **kw)

        builtins.open = _open
        io.open = _open
        os.open, os.fdopen, os.write, os.close, os.fsync = _osopen, _fdopen, _oswrite, _osclose, _fsync
        os.path.exists, os.path.isfile, os.path.getsize = _exists, _isfile, _getsize
        os.remove = os.unlink = _remove
        os.rename = os.replace = _rename

    def uninstall(self):
        import builtins
        sv = self._saved
        builtins.open, io.open = sv['bopen'], sv['ioopen']
        os.open, os.fdopen, os.write, os.close, os.fsync = sv['osopen'], sv['fdopen'], sv['oswrite'], sv['osclose'], sv['fsync']
        os.path.exists, os.path.isfile, os.path.getsize = sv['exists'], sv['isfile'], sv['getsize']
        os.remove, os.unlink, os.rename, os.replace = sv['remove'], sv['unlink'], sv['rename'], sv['replace']

    # direct (fault-free) access for the harness
    def put(self, path, data):
        self.disk.files[path] = bytearray(data)

    def get(self, path):
        return bytes(self.disk.files.get(path, b''))
