"""Reach probes: which lines of the tree under test (pyspike/*.py and the lowered
.pyx kernels) did the batch actually execute?  Uses sys.monitoring LINE events
and disables each location after its first hit, so the cost is a one-off per
line per worker process.  Never drives a choice; reported in the evidence so that
a branch stuck at zero is visible."""
import os
import sys

_TOOL = 1  # sys.monitoring.COVERAGE_ID
_state = {'on': False, 'hits': set(), 'interest': {}, 'reported': set()}


def _lines_of(code, out, top=True):
    for c in code.co_consts:
        if hasattr(c, 'co_code'):
            for _s, _e, ln in c.co_lines():
                if ln and ln != c.co_firstlineno:
                    out.add(ln)
            _lines_of(c, out, False)


def executable_lines(world):
    """short name -> set of line numbers inside function bodies"""
    res = {}
    pdir = os.path.join(world.repo, 'pyspike')
    for root, _d, files in os.walk(pdir):
        for f in sorted(files):
            path = os.path.join(root, f)
            short = os.path.relpath(path, world.repo)
            if f.endswith('.py'):
                try:
                    with open(path) as fh:
                        code = compile(fh.read(), path, 'exec')
                except Exception:
                    continue
                s = set()
                _lines_of(code, s)
                if s:
                    res[short] = s
    for short, code in world.lowered_code.items():
        s = set()
        _lines_of(code, s)
        res['pyspike/cython/%s.pyx' % short] = s
    return res


def start(world):
    if _state['on']:
        return
    mon = getattr(sys, 'monitoring', None)
    if mon is None:
        return
    interest = {}
    pdir = os.path.join(world.repo, 'pyspike')
    for root, _d, files in os.walk(pdir):
        for f in files:
            if f.endswith('.py') or f.endswith('.pyx'):
                p = os.path.join(root, f)
                interest[p] = os.path.relpath(p, world.repo)
    _state['interest'] = interest
    hits = _state['hits']

    def cb(code, line):
        short = interest.get(code.co_filename)
        if short is not None:
            hits.add((short, line))
        return mon.DISABLE
    try:
        mon.use_tool_id(_TOOL, 'simworld-reach')
    except ValueError:
        return
    mon.register_callback(_TOOL, mon.events.LINE, cb)
    mon.set_events(_TOOL, mon.events.LINE)
    _state['on'] = True


def drain():
    """hits not yet reported by this process"""
    new = _state['hits'] - _state['reported']
    _state['reported'] |= new
    return sorted(new)


def summarize(world, hits, files=None):
    ex = executable_lines(world)
    byfile = {}
    for short, ln in hits:
        byfile.setdefault(short, set()).add(ln)
    out = {}
    for short in sorted(ex):
        if files is not None and short not in files:
            continue
        e = ex[short]
        h = byfile.get(short, set()) & e
        if not h and files is None:
            continue
        unhit = sorted(e - h)
        out[short] = {'executable_lines_in_functions': len(e), 'lines_executed': len(h),
                      'lines_never_executed': unhit[:60] + (['...'] if len(unhit) > 60 else [])}
    return out
