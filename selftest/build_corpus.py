#!/venv/bin/python
"""Development aid (not a registered command): for every "fix:" commit in /repo,
re-introduce the defect in a scratch worktree (git revert -n), run the checks that
should see it with VERIF_REPO pointing there, and copy the minimised replay files
into /verif/corpus/ so that every later check run re-executes them first."""
import glob
import json
import os
import shutil
import subprocess
import sys

VERIF = os.path.dirname(os.path.dirname(os.path.abspath(__file__)))
FIXES = [
    # (slug, commit subject prefix, properties expected to catch it)
    ('order-multi-guard', 'fix: spike_train_order_multi tests the pooled', ['C05']),
    ('order-empty-pair', 'fix: spike_train_order of two empty trains', ['C05', 'C12', 'C18']),
    ('single-pass-nan', 'fix: single-pass ISI/SPIKE distance kernels', ['C05', 'C07', 'C12', 'C18']),
    ('order-reconcile', 'fix: spike_train_order reconciles', ['C13']),
    ('order-multi-normalize', 'fix: spike_train_order_multi honours normalize', ['C14']),
    ('directionality-indices', 'fix: directionality values and matrix use', ['C14', 'C18']),
    ('directionality-empty', 'fix: normalised spike_directionality of a train', ['C18', 'C12']),
    ('time-series-one-row', 'fix: import_spike_trains_from_time_series', ['C19']),
    ('get-tau-inplace-mrts', 'fix: get_tau of the Python backend no longer divides', ['C12']),
]


MANUAL = {
    'order-multi-guard': ('pyspike/spike_directionality.py', 'if m_total == 0.0:', 'if m == 0.0:'),
}


def sh(*a, **kw):
    return subprocess.run(a, capture_output=True, text=True, **kw)


def main():
    log = sh('git', '-C', '/repo', 'log', '--format=%H %s').stdout.splitlines()
    out = []
    only = sys.argv[1:]
    for slug, prefix, props in FIXES:
        if only and slug not in only:
            continue
        commit = [l.split()[0] for l in log if l.split(' ', 1)[1].startswith(prefix)]
        assert len(commit) == 1, (prefix, commit)
        wt = '/tmp/scratch/wt-' + slug
        sh('git', '-C', '/repo', 'worktree', 'remove', '--force', wt)
        shutil.rmtree(wt, ignore_errors=True)
        r = sh('git', '-C', '/repo', 'worktree', 'add', '--detach', wt, 'HEAD')
        assert r.returncode == 0, r.stderr
        r = sh('git', '-C', wt, 'revert', '-n', commit[0])
        if r.returncode != 0:
            sh('git', '-C', wt, 'revert', '--abort')
            sh('git', '-C', wt, 'reset', '--hard', 'HEAD')
            assert slug in MANUAL, (slug, r.stderr)
            fn, old, new = MANUAL[slug]
            raw = open(os.path.join(wt, fn), newline='').read()
            assert raw.count(old) == 1, (slug, raw.count(old))
            open(os.path.join(wt, fn), 'w', newline='').write(raw.replace(old, new))
        for prop in props:
            for f in glob.glob(os.path.join(VERIF, 'replays', prop + '-*.json')):
                os.remove(f)
            env = dict(os.environ, VERIF_REPO=wt, VERIF_EVIDENCE_DIR='/tmp/scratch/corpus-ev')
            p = sh('/venv/bin/python', os.path.join(VERIF, 'check.py'), 'run', prop, '--runs', '6000', env=env)
            lines = [l for l in p.stdout.splitlines() if l.startswith('VIOLATION')]
            print(slug, prop, 'rc=%d' % p.returncode, len(lines), 'violation line(s)')
            for k, l in enumerate(lines):
                path = l.split('replay=')[1]
                dst = os.path.join(VERIF, 'corpus', '%s-fixed-%s-%d.json' % (prop, slug, k))
                shutil.copy(path, dst)
                out.append((slug, prop, commit[0][:7], dst))
        sh('git', '-C', '/repo', 'worktree', 'remove', '--force', wt)
        shutil.rmtree(wt, ignore_errors=True)
    # evidence files were overwritten by runs against scratch trees: remove them, the real checks rewrite them
    print(json.dumps(out, indent=1))


if __name__ == '__main__':
    main()
