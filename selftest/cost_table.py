#!/venv/bin/python
"""Rewrites the measured-cost table of DESIGN.md section 3.12 from the current evidence files."""
import json
import os
import re

VERIF = os.path.dirname(os.path.dirname(os.path.abspath(__file__)))
rows = []
for pid in ['C05', 'C07', 'C09', 'C11', 'C12', 'C13', 'C14', 'C18', 'C19', 'C20']:
    e = json.load(open(os.path.join(VERIF, 'evidence', pid + '.json')))
    c = e['coverage']
    rows.append("| %s | %s | %d | %d | %d | %d | %.0f | %.1f M |" % (
        pid, e['tier'], c['evaluations'], c['distinct_nontrivial'], c['operations_executed'], c['oracle_comparisons'],
        e['wall_s'], c['runs_per_hour'] / 1e6))
table = "| check | tier | runs | distinct state classes | operations | oracle comparisons | wall s | runs/hour |\n|---|---|---|---|---|---|---|---|\n" + "\n".join(rows)
p = os.path.join(VERIF, 'DESIGN.md')
s = open(p).read()
s2 = re.sub(r"\| check \|[^\n]*\n\|---[^\n]*\n(?:\| C\d\d \|[^\n]*\n?)+", table + "\n", s, count=1)
assert s2 != s or table in s
open(p, 'w').write(s2)
print(table)
