#!/venv/bin/python
"""How dependable is detection at the quick tier?  For every seeded change, run the quick check
of the property expected to catch it under several VERIF_SEED values (not the one used during
development) and report the detection rate.  Not a registered command."""
import json
import os
import shutil
import subprocess
import sys

VERIF = os.path.dirname(os.path.dirname(os.path.abspath(__file__)))
SEEDS = [1, 2, 3]


def sh(*a, **kw):
    return subprocess.run(a, capture_output=True, text=True, **kw)


def main():
    want = sys.argv[1:]
    sd = os.path.join(VERIF, 'seeded')
    wt = '/tmp/scratch/robust-tree'
    tot = hit = 0
    weak = []
    for sid in sorted(os.listdir(sd)):
        if want and sid not in want:
            continue
        m = json.load(open(os.path.join(sd, sid, 'meta.json')))
        props = m['expected_checks'] if 'expected_checks' in m else [m['property']]
        if not props:
            continue
        sh('git', '-C', '/repo', 'worktree', 'remove', '--force', wt)
        shutil.rmtree(wt, ignore_errors=True)
        assert sh('git', '-C', '/repo', 'worktree', 'add', '--detach', wt, 'HEAD').returncode == 0
        assert sh('git', '-C', wt, 'apply', os.path.join(sd, sid, 'patch.diff')).returncode == 0
        res = []
        for seed in SEEDS:
            env = dict(os.environ, VERIF_REPO=wt, VERIF_SEED=str(seed), VERIF_EVIDENCE_DIR='/tmp/scratch/robust-ev',
                       VERIF_REPLAY_DIR='/tmp/scratch/robust-rp')
            rc = max(sh('/venv/bin/python', os.path.join(VERIF, 'check.py'), 'run', p, '--tier', 'quick', env=env).returncode == 1
                     for p in props)
            res.append(bool(rc))
        tot += len(res)
        hit += sum(res)
        if not all(res):
            weak.append(sid)
        print("%-8s %s  caught under seeds %s: %s" % (sid, ','.join(props), SEEDS, ''.join('Y' if r else '-' for r in res)))
        sys.stdout.flush()
        m['quick_detection_by_seed'] = dict((str(s), r) for s, r in zip(SEEDS, res))
        json.dump(m, open(os.path.join(sd, sid, 'meta.json'), 'w'), indent=1)
    sh('git', '-C', '/repo', 'worktree', 'remove', '--force', wt)
    shutil.rmtree(wt, ignore_errors=True)
    shutil.rmtree('/tmp/scratch/robust-ev', ignore_errors=True)
    shutil.rmtree('/tmp/scratch/robust-rp', ignore_errors=True)
    print("detections: %d of %d; not caught under every seed: %s" % (hit, tot, weak or 'none'))


if __name__ == '__main__':
    main()
