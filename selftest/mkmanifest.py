import json
NA = json.load(open('/verif/MANIFEST.json'))['not_applicable']   # kept as committed
checks = []
info = {
 'C05': ('api', "5.C05", "seeded simulation: scalar route vs independently integrated profile under both backend configurations reached by import-fault injection",
         "Exploration: seeded runs over pools of valid trains; in each run the fault plan at the import seam fixes one of the two backend configurations the property names, and every scalar (ISI, SPIKE plain/RI/adaptive, SPIKE-Sync, spike-train order; 2..6 trains; whole recording, one and several sub-intervals) is compared with an independent integration of the corresponding profile. Evidence over the explored runs only."),
 'C07': ('api', "5.C07", "seeded simulation: range, swap-symmetry and self-identity invariants under both backend configurations (import-fault injection)",
         "Exploration: range of every bivariate profile/scalar, X(a,b)==X(b,a) and X(a,a)/X(a,copy) identities, whole recording and sub-intervals, in both backend configurations decided by the import fault plan."),
 'C09': ('func', "5.C09", "deterministic simulation of add/mul_scalar/copy histories with per-add backend fault; exact rational reference model; snapshot invariant on untouched objects",
         "Exploration over operation histories on live PieceWiseConst/LinFunc objects, each step compared with an exact Fraction model (breakpoints exactly, values within 1e-9, integral), operands and bystanders byte-compared, add served by either backend as the fault plan decides per call."),
 'C11': ('func', "5.C11", "deterministic simulation of DiscreteFunc add/scale/copy/read histories with per-add backend fault; exact event model",
         "Exploration over histories on live DiscreteFunc objects against an exact event model: one entry per event time, summed values/multiplicities, open-interval integrals, avrg convention, plottable data by unit expansion."),
 'C12': ('backend', "5.C12 / 4.1", "import-fault injection (16 partial builds + per-import flips) with shadow differential of every routine against its twin; lowered .pyx stand-in for the compiled side",
         "Exploration: each of the 15 routine pairs is executed on the argument tuples real calling code produces (shadowed at the import seam, scheduled routine on the caller's own objects) and on generated tuples, and the two versions' return values are compared; end-to-end comparison of public calls between installations (all extensions built / none / the run's partial build), each started from fresh process state with prelude calls; an ImportError escaping a public call in any of the 16 partial builds or under per-import flips is reported; 25% of runs audit kernel indexing."),
 'C13': ('api', "5.C13", "seeded simulation of call histories on a caller-owned pool: snapshot invariant after every step, reconcile reference model, disorder/Reconcile=False equivalences in both backend configurations",
         "Exploration: caller-owned raw trains (unsorted, repeated, different edges, out-of-range times) live across a history of calls; byte snapshot after every step; reconcile against an independent model incl. idempotence and freshness of outputs; every measure on raw input equals the measure on the model-reconciled input; Reconcile=False on valid input equals default."),
 'C14': ('api', "5.C14", "seeded simulation: all call forms and arbitrary-order index selections compared under both backend configurations",
         "Exploration: for every measure the forms f(a,b), f([a,b]), f(*sub), f(sub), f(pool, indices=idx) with idx any subset in any order, same keywords, must agree; both backend configurations."),
 'C18': ('api', "5.C18", "seeded simulation with degenerate-biased pools: well-formedness invariant and bounded-time return after every public call under both backend configurations",
         "Exploration: every public measure function, every call form, degenerate trains (empty, one spike, spikes on edges, identical) at every list position, keywords and sub-intervals; result must come back without exception, well-formed and finite, within the per-run time bound."),
 'C19': ('iom', "5.C19 / 4.4", "deterministic simulation of save/load over a fault-injecting raw device (short reads/writes, EIO/ENOSPC, failing close, crash) under CPython's real io stack; text-format reference model",
         "Exploration: acknowledged save => exact load (to the printed precision, bit-identical at >=17 digits) under injected I/O faults at the raw layer (short reads/writes, EIO/ENOSPC/EACCES, failing close, failing open, crash mid-save), small buffers/chunks, write-through, CRLF platform; builtins/io/os file APIs intercepted; thorough tier adds systematic single-fault sweeps over the first 96 raw-call positions of sampled workloads; hand-written files, from-string, time-series and scalar-edge constructors fault-free."),
 'C20': ('genm', "5.C20 / 4.5", "simulator-owned random source (adversarial legal exponential draws) for Poisson generation; multiset conservation model for merge and PSTH",
         "Exploration: every outcome class of the random source (zeros, tiny, huge, ordinary draws) for generate_poisson_spikes; merge and PSTH checked against a multiset model on generated and Poisson trains."),
}
for pid in ['C05','C07','C09','C11','C12','C13','C14','C18','C19','C20']:
    eng, ref, tech, text = info[pid]
    checks.append({
        'property_id': pid,
        'quick_cmd': '/venv/bin/python /verif/check.py run %s --tier quick' % pid,
        'thorough_cmd': '/venv/bin/python /verif/check.py run %s --tier thorough' % pid,
        'evidence_file': '/verif/evidence/%s.json' % pid,
        'replay_cmd_template': '/venv/bin/python /verif/check.py replay {path}',
        'engine': 'simworld',
        'level_claimed': {'category': 'exploration', 'text': text, 'design_ref': 'DESIGN.md ' + ref},
        'level_note': "Trusted base: numpy, CPython, the harness (simworld/) and its reference models; the compiled side of the backend seam is the .pyx source lowered to Python (no Cython compiler offline), so nothing is claimed about C-level behaviour; sampling, not proof.",
        'technique': tech,
    })
m = {
 'version': 1,
 'setup_cmd': '/venv/bin/python /verif/check.py setup',
 'hooks': {
   'guard': 'PYSPIKE_VERIF',
   'enable': 'no hook in /repo is needed: the import, file, random and stdout seams are installed from outside by /verif/simworld (builtins.__import__, pyspike.spikes.open, np.random.exponential, sys.stdout); the guard name is reserved and unused',
   'baseline_off_cmd': 'cd /repo && /venv/bin/python -m pytest -ra -q -p no:cacheprovider --timeout=900 --continue-on-collection-errors',
   'source_commits': [],
   'add_only': True,
 },
 'engines': [{'name': 'simworld', 'path': '/verif/simworld', 'serves_properties': sorted(info),
              'kind_free_text': 'deterministic simulator: seeded operation-and-fault lists executed against real PySpike with simulator-owned import / file / random seams; five machines (api, backend, func, iom, genm); shrinking and replay files'}],
 'checks': checks,
 'not_applicable': NA,
 'notes': 'Deterministic simulation with fault injection; see DESIGN.md (approach, findings, sensitivity) and README.md (layout). Nine genuine defects found by the checks were repaired in /repo as "fix:" commits and are listed in known_findings.json as fixed (they suppress nothing; their replays in corpus/ run first in every check). One further finding (NaN for time differences in the denormal range, e.g. a spike at 5e-324 next to an edge at 0) is recorded as a known finding for C05, C07 and C18. Every run starts from post-import module state (process-restart emulation), so violations that depend on memoised state replay in a fresh interpreter. 58 independently seeded breaking changes are kept under seeded/ (all caught; selftest/mutants.py, selftest/robustness.py).',
}
json.dump(m, open('/verif/MANIFEST.json','w'), indent=1)
