#!/venv/bin/python
"""Self-test of the known-finding path (not a registered command).  On a scratch tree that
carries two seeded defects of C20 (phantom edge spikes in merge; half-open last PSTH bin), a
findings file that lists only the first one must turn it into a KNOWN-FINDING line while the
second is still reported as VIOLATION with exit 1; listing both gives exit 0 with two
KNOWN-FINDING lines; listing none gives exit 1."""
import json
import os
import shutil
import subprocess
import sys
import tempfile

VERIF = os.path.dirname(os.path.dirname(os.path.abspath(__file__)))


def sh(*a, **kw):
    return subprocess.run(a, capture_output=True, text=True, **kw)


def main():
    wt = '/tmp/scratch/known-tree'
    sh('git', '-C', '/repo', 'worktree', 'remove', '--force', wt)
    shutil.rmtree(wt, ignore_errors=True)
    assert sh('git', '-C', '/repo', 'worktree', 'add', '--detach', wt, 'HEAD').returncode == 0
    tmp = tempfile.mkdtemp(prefix='known-')
    ok = True
    try:
        for sid in ('C20-A', 'C20-B'):
            r = sh('git', '-C', wt, 'apply', os.path.join(VERIF, 'seeded', sid, 'patch.diff'))
            assert r.returncode == 0, r.stderr
        f_merge = {'id': 'T-merge', 'property': 'C20', 'status': 'known', 'what': 'merge adds phantom edge spikes for empty trains',
                   'matcher': {'oracle': 'C20.merge_multiset', 'where': [['op', '==', 'merge']]}}
        f_psth = {'id': 'T-psth', 'property': 'C20', 'status': 'known', 'what': 'psth loses spikes on t_end',
                  'matcher': {'oracle': 'C20.psth_counts', 'where': [['op', '==', 'psth']]}}
        cases = [([], 1, 0), ([f_merge], 1, 1), ([f_merge, f_psth], 0, 2)]
        for findings, want_rc, want_known in cases:
            fp = os.path.join(tmp, 'f.json')
            json.dump({'findings': findings}, open(fp, 'w'))
            env = dict(os.environ, VERIF_REPO=wt, VERIF_FINDINGS=fp, VERIF_EVIDENCE_DIR=os.path.join(tmp, 'ev'),
                       VERIF_REPLAY_DIR=os.path.join(tmp, 'rp'))
            p = sh('/venv/bin/python', os.path.join(VERIF, 'check.py'), 'run', 'C20', '--runs', '2000', env=env)
            known = [l for l in p.stdout.splitlines() if l.startswith('KNOWN-FINDING: property=C20')]
            viol = [l for l in p.stdout.splitlines() if l.startswith('VIOLATION property=C20')]
            good = p.returncode == want_rc and len(known) == want_known and (bool(viol) == (want_rc == 1))
            if findings == [f_merge]:
                # the violation still reported must be the one NOT listed
                good = good and 'psth_counts' in p.stdout and 'oracle=C20.merge_multiset' not in p.stdout
            print("findings listed: %-18s rc=%d known-lines=%d violation-lines=%d  %s" % (
                [f['id'] for f in findings], p.returncode, len(known), len(viol), 'ok' if good else 'UNEXPECTED'))
            if not good:
                print(p.stdout[-1500:])
            ok = ok and good
    finally:
        sh('git', '-C', '/repo', 'worktree', 'remove', '--force', wt)
        shutil.rmtree(wt, ignore_errors=True)
        shutil.rmtree(tmp, ignore_errors=True)
    return 0 if ok else 1


if __name__ == '__main__':
    sys.exit(main())
