#!/venv/bin/python
"""Prints the markdown table of DESIGN.md section 10.2 from seeded/*/meta.json (+ the one-line
descriptions kept here)."""
import json
import os

VERIF = os.path.dirname(os.path.dirname(os.path.abspath(__file__)))
DESC = {
 'C05-A': "`_generic_distance_multi` drops the pooled `MRTS='auto'` threshold (assigned to an unused local), so each pair derives its own; needs >= 3 trains, `'auto'`, differing rates",
 'C05-B': "`_spike_sync_values` maps `interval == (t_start, t_end)` to `None`; needs the explicit full-recording interval and a spike exactly on an edge",
 'C07-A': "tie branch of `spike_distance_python` restarts the nearest-spike search at the wrong cursor; needs a shared spike time that is not the last of train 2 with train 2 ahead",
 'C07-B': "`isi_distance_python` end-edge correction keyed on the other train's length; needs a one-spike first argument and a longer last ISI in the second",
 'C09-A': "`np.isclose` instead of `==` for shared breakpoints in both Python add routines; needs distinct breakpoints closer than 1e-5 relative",
 'C09-B': "`np.asarray(dtype=float)` in the PWC/PWL constructors: `copy()` shares arrays; needs copy then `mul_scalar`/write with no `add` in between",
 'C11-A': "discrete add (py and pyx) treats the receiver's closing edge as sentinel: an operand event exactly on `t_end` becomes the edge entry; needs `f.add(g)` with the `t_end` event only in `g`",
 'C11-B': "`DiscreteFunc.integral` fast path for `interval == support` counts events on the edges; needs an edge event and the explicit full interval",
 'C12-A': "Python `get_tau` passes the unscaled MRTS to one of four `Interpolate` calls; needs MRTS > 0 and a particular ISI pattern; `.pyx` untouched",
 'C12-B': "fallback branch of `_spike_train_order_impl` drops `max_tau`; routine pairs stay equal, only the public result differs between backends",
 'C13-A': "`reconcile_spike_trains` skips the fresh copy for ordered trains and clips in place: the caller's train loses out-of-range spikes",
 'C13-B': "`_generic_distance_matrix` derives `MRTS='auto'` before reconciling; needs a matrix function, `'auto'`, input that reconciliation alters",
 'C14-A': "pair generation `for i in indices for j in indices if i < j` reorders non-ascending selections; needs an antisymmetric measure and e.g. `indices=[2, 0]`",
 'C14-B': "`spike_sync_multi` shortcut through the profile when `interval` is given forgets `max_tau`; needs list form + `interval` + binding `max_tau`",
 'C18-A': "refactored leading-edge helper gives a one-spike train on `t_start` a first ISI of 0; needs two trains `[t_start]`, MRTS = 0 (NaN)",
 'C18-B': "`isi_lengths` returns `[]` for an empty train, `default_thresh_` divides by the empty pool; needs all trains empty, `'auto'`, a SPIKE function (NaN)",
 'C19-A': "flattened line filter in load: comment lines fall into the empty-line branch; needs a comment line and `ignore_empty_lines=False`",
 'C19-B': "vectorised time-series import loses all-zero rows",
 'C20-A': "`merge_spike_trains` uses `get_spikes_non_empty()`: every empty train contributes two phantom edge spikes",
 'C20-B': "PSTH by `searchsorted` makes the last bin half-open; needs a spike exactly on `t_end`",
 'C05-A2': "as C05-B, written independently (explicit whole-recording interval becomes `None` on the SPIKE-Sync scalar route)",
 'C05-B2': "`np.unique(indices)` in the generic profile/distance helpers sorts the selection; order profile follows the sorted order, the scalar the caller's; needs spike-train order with non-ascending `indices`",
 'C07-A2': "one-entry memo of the last reconciled pair keyed on object identity and array identity; needs an earlier bivariate call on the same two objects and an in-place edit in between",
 'C07-B2': "`default_thresh` memoised with `str(spikes)` as key (8 significant digits, long arrays abbreviated); needs `'auto'`, nearly equal trains, an earlier `'auto'` call",
 'C09-A2': "full-range `integral()` memo keyed on array identity: stale after the in-place `mul_scalar`; needs integral, then mul_scalar, then integral on the same object",
 'C09-B2': "\"same grid\" shortcut in both Python add routines using `np.allclose`; needs equal piece counts and all breakpoints pairwise within 1e-5 relative but not equal",
 'C11-A2': "cumulative-sum cache valid \"while `self.x` is the same object\" plus an add shortcut that keeps `x` for identical event times; needs interval query, such an add, interval query",
 'C11-B2': "as C11-B, written independently",
 'C12-A2': "Python `get_tau` reads ISIs from a cache keyed on `id(spikes)`; needs the same array object seen before, edited in place, `Reconcile=False`",
 'C12-B2': "`coincidence_python` returns int64 counts; values equal, but `mul_scalar`/smoothing truncate and a build with `cython_add` but without `cython_profiles` rejects the buffers",
 'C13-A2': "reconcile stamps its outputs and skips work when every input carries a stamp matching its own edges; needs trains returned by different earlier reconcile calls with different global intervals",
 'C13-B2': "module-level memo of the last reconciled list keyed on the list object; needs the same list object passed again after its contents changed in place",
 'C14-A2': "`spike_sync_multi` maps the explicit whole-recording interval to `None` (list forms only); needs an edge spike",
 'C14-B2': "`reconcile_spike_trains` reuses its last result for the same objects with unchanged (edges, spike count); needs an in-place edit between two list-form calls",
 'C18-A2': "reconcile keeps trains with < 2 spikes by reference and rebinds their `.spikes` to a list; needs a later call with `Reconcile=False` and `MRTS='auto'` on the same object (AttributeError)",
 'C18-B2': "one remembered probe of `cython_profiles` decides whether the add methods import `cython_add` unguarded; needs a partial build (profiles yes, add no) and >= 3 trains",
 'C19-A2': "`os.open(O_WRONLY|O_CREAT)` + `os.fdopen` instead of `open(..., 'w')`: no truncation; needs a second, shorter save to the same path",
 'C19-B2': "module-level cache of the bin grid shifted in place by `start_time`; needs an earlier import with the same layout and a non-zero start",
 'C20-A2': "`lru_cache`d bin edges shifted in place; needs an earlier `psth` call with the same length/bin count and `t_start != 0`",
 'C20-B2': "\"append more\" branch recomputes spikes without `T_start`; needs the first batch of draws to end before `T_end` and `T_start > 0`",
 'C11-A3': "`np.asarray(y, dtype=float)` in the DiscreteFunc constructor: `copy()` shares `y`; needs copy then `mul_scalar` without an add",
 'C11-B3': "per-interval memo of (value, multiplicity) that the identical-`x` add fast path forgets to clear; needs query, such an add, same query",
 'C12-A3': "the three single-pass sites import `cython_distances` unguarded when a remembered probe of `cython_profiles` succeeded; needs that partial build",
 'C12-B3': "`compiled_routine(extension, name)` memo keyed by extension only: the first add site decides the routine for all three; needs `cython_add` importable and two kinds of multivariate profile in one process (import via pre-bound `importlib.import_module`)",
 'C19-A3': "save writes raw 64 KiB chunks (`'wb', buffering=0`) and ignores the byte count returned by a SHORT WRITE; returns normally with bytes missing",
 'C19-B3': "load reads raw 64 KiB blocks and takes a SHORT READ for end of file; returns normally with trains missing",
 'C20-A3': "extra batches appended at an offset that is stale from the second \"append more\" round on: unsorted train; needs the loop to run at least twice",
 'C20-B3': "PSTH via `searchsorted` with a `+1` correction for the closed last bin: several trains spiking exactly on `t_end` are counted once",
 'C05-A4': "compiled branch of `_spike_train_order_impl` returns `(0, 0)` when either train is empty (multiplicity lost); needs a pair with exactly one empty train",
 'C05-B4': "compiled branch of `_spike_sync_values` routes a sub-interval that contains all spikes (non-strict) to the whole-recording kernel; needs an interval end exactly on the first/last spike",
 'C07-A4': "`MRTS='auto'` resolved inside the compiled branch of `spike_distance_bi` from `[train1, train1]`; asymmetric under swap",
 'C07-B4': "compiled branch of `_spike_sync_values` short-cuts an empty train with the other argument's count: `spike_sync(x, empty)` = 1, `spike_sync(empty, x)` = 0",
 'C13-A4': "compiled fast path of `isi_distance_bi` passes the caller's un-reconciled edges with the reconciled spikes; needs trains with different edges",
 'C13-B4': "compiled branch of `spike_distance_bi` clips the spike array in place; with `Reconcile=False` that is the caller's own array",
 'C14-A4': "compiled fast path of `spike_train_order_multi` generates pairs with `i < j` on stored indices; needs a non-ascending selection",
 'C14-B4': "compiled fast path of `spike_sync_multi` omits the trailing `MRTS` argument of the kernel; list forms ignore MRTS",
 'C18-A4': "compiled branch of `isi_distance_bi` hands `st.spikes` instead of `get_spikes_non_empty()` to the kernel: empty train, index outside the buffer",
 'C18-B4': "compiled branch of `spike_distance_bi` passes the still unresolved `'auto'` string as `double MRTS`",
 'C05-A5': "`interval[0] or t_start, interval[1] or t_end` in a new helper of the scalar route: an interval end exactly 0.0 is replaced by the recording edge; needs `t_start < 0 < t_end`",
 'C05-B5': "pairs of two empty trains filtered out before `L = len(pairs)`, which is also the divisor of the multivariate profile; needs >= 3 trains, two of them empty",
 'C07-A5': "`index2 is last2` (identity on a spike index) in `spike_distance_python`: like `==` up to 256, always False beyond; needs a train of >= 258 spikes as second argument",
 'C07-B5': "trailing edge correction rewritten with a loop-carried ISI; the tie-branch copy for train 2 lost its one-spike guard; needs a one-spike second argument tying with an inner spike of the first",
 'C09-A5': "single-piece shortcut in `add_piece_wise_lin_python` evaluates `y + slope*x` instead of `slope*(x - x0)`; needs a one-piece operand with a slope and `t_start != 0`",
 'C09-B5': "`average_profile` as recursive pairwise sum that copies only the first profile: with >= 4 profiles a caller's profile is used as accumulator",
 'C11-A5': "several intervals: touching intervals are joined before integrating, so an event exactly on the shared end is counted",
 'C11-B5': "smoothing refactored into a helper, the `mp[i] >= expected` early-out dropped: neighbours subtracted when an event's multiplicity exceeds the window",
 'C12-A5': "`spike_distance_python`: auxiliary edge spike of a one-spike train keeps the 0.0 of `np.zeros`; needs `t_start != 0`; `.pyx` untouched",
 'C12-B5': "fallback branch of `_spike_sync_values` returns `(n, n)` instead of `(2n, 2n)` for identical trains: pooled multivariate value differs from the compiled one; needs N >= 3 with a repeated train",
 'C13-A5': "`reconcile_spike_trains_bi` returns its arguments untouched when both are the same object; needs `f(a, a)` with an un-normalised `a`",
 'C13-B5': "`kwargs.get('Reconcile', True) is True` in the generic helpers: `Reconcile=1` / `np.True_` skips reconciliation; needs a multi/matrix form and raw trains",
 'C14-A5': "`np.array(spike_trains, dtype=object)[indices]` in the matrix helper: with equal spike counts in every train numpy builds a 2-D float array; matrix + `indices` raises",
 'C14-B5': "`np.ravel(interval)` in `_generic_distance_multi` flattens a sequence of intervals: list forms average over the first window only",
 'C18-A5': "`.tolist()` in `isi_distance_python`: Python-float 0/0 raises where `np.float64` gave a discarded NaN; needs both trains a single spike on `t_end`, MRTS = 0",
 'C18-B5': "`except ModuleNotFoundError` instead of `except ImportError` in `PieceWiseLinFunc.add`; needs an extension that is present but not loadable (plain ImportError) and a SPIKE profile of >= 3 trains",
 'C19-A5': "bin times by float-step `np.arange(start+bin, start+(n+1)*bin, bin)`: one entry too many for some non-dyadic widths, `t_end` a bin too late",
 'C19-B5': "bare `except:` narrowed to `except TypeError:` in the edge parsing of `SpikeTrain`: a numpy scalar edge raises IndexError",
 'C20-A5': "PSTH bin edges `t_start + (T/n)*arange(n+1)`: for some bin counts the last edge is one ulp below `t_end` and spikes on `t_end` are dropped",
 'C20-B5': "bare `except:` narrowed to `except TypeError:` in `generate_poisson_spikes`: a numpy scalar interval raises IndexError",
 'C05-A6': "empty-train shortcut in `_spike_sync_values` counts multiplicity on the CLOSED interval; needs an empty train and an interval end exactly on a spike",
 'C05-B6': "the single-pair branch of `_generic_profile_multi` unpacks the pair in reverse order: the order profile of a two-train list flips sign",
 'C07-A6': "`spikes1[i]-tau < spikes2[j]` instead of `spikes1[i]-spikes2[j] < tau` in `coincidence_python`: same mathematics, different rounding per argument order; needs decimal-grid times with a distance equal to the window up to rounding",
 'C07-B6': "`elif ... and t_f1 != t_f2` in `spike_distance_python` forgets the exhausted-train sentinel tie at `t_end`",
 'C09-A6': "vectorised constant add looks pieces up at their midpoints: when two merged breakpoints are adjacent doubles (0.3 vs 0.1+0.2) the midpoint rounds onto the upper one",
 'C09-B6': "`average_profile` skips by object identity (`profile is not first`): a profile listed again by reference is dropped from the sum but counted in the divisor",
 'C11-A6': "vectorised discrete add: `searchsorted` position N1 (the closing edge) also matches an operand event on `t_end`, which is folded into the edge entry",
 'C11-B6': "several intervals via `np.add.reduceat`: an interval without events contributes the next event instead of nothing",
 'C12-A6': "chained window comparison in `coincidence_single_python` (float operation order at a tie); decimal-grid times; `.pyx` untouched",
 'C12-B6': "`t_p1`/`t_p2` initialisation of `spike_distance_python` hoisted into the `>`/`else` branches (`==` widened to `<=`); only shows for a first spike BEFORE `t_start`",
 'C13-A6': "reconcile clips with two `searchsorted` cut points, the second computed before the first slice: a train with strays on both sides keeps one",
 'C13-B6': "global edges by one loop with `if start < ... elif end > ...`: a train that lowers the start is not considered for the end",
 'C14-A6': "pooled reconcile for lists of > 2 trains de-duplicates across train boundaries: a train whose first spike equals the previous train's last loses it",
 'C14-B6': "new `_prepare_spike_trains` helper selects by `indices` only inside the `Reconcile=True` block: with `Reconcile=False` `indices` is ignored",
 'C18-A6': "merged start-of-recording expression in `isi_distance_python`: a one-spike train on `t_start` gets a first ISI of 0 (NaN for two such trains)",
 'C18-B6': "`if interval[0] > interval[1]: raise` added to `PieceWiseLinFunc.avrg` before the pair/sequence distinction: a descending list of sub-intervals raises",
 'C19-A6': "save by `'\\n'.join(lines)` with a terminator only if the text does not already end in a newline: a trailing empty train is lost",
 'C19-B6': "time-series import split by `np.bincount(rows)` without `minlength`: trailing all-zero rows are dropped",
 'C20-A6': "two-train fast path of `merge_spike_trains` ranks both trains with `searchsorted(side='left')`: a shared spike time loses one copy",
 'C05-A7': "fast path in the constant add for very unequal operands (`np.insert`) duplicates the wrong piece; needs a partial sum of > 48 breakpoints meeting a short pair profile (a train of > 100 spikes among short ones)",
 'C05-B7': "new feature: ndarray `interval` accepted by `avrg`/`integral`, implemented with `np.interp` on a cumulative integral - exact for constant, wrong for linear pieces; needs an ndarray interval (rejected by the pinned tree)",
 'C09-A7': "constant add returns the operand's own arrays when the receiver is a single zero piece: later in-place scaling of either changes the other",
 'C09-B7': "linear add skips a single-piece operand whose average is 0: a ramp from -c to +c is dropped",
 'C12-A7': "nearest-spike walk of the Python kernel made recursive: RecursionError for ~1000 spikes of the other train inside a silent stretch (SCALE: not caught)",
 'C12-B7': "module-level scratch rows of the Python kernels grown by one doubling only: IndexError for a pair with > 2048 events in a fresh process (SCALE: not caught)",
 'C13-A7': "`spike_trains[:] = reconcile_spike_trains(spike_trains)` in the matrix helper: the caller's LIST now holds the reconciled trains",
 'C13-B7': "reconcile de-duplicates on the int64 bit patterns of the doubles: negative times come out in decreasing order; needs >= 2 negative spike times",
 'C19-A7': "save writes each line in blocks of 512 spikes without a separator between blocks; needs a train of > 512 spikes; the file then fails to load",
 'C19-B7': "comment lines recognised by an unescaped regex built from the marker: metacharacter markers (`*`, `.`, `|`, `$`) raise or drop data lines",
 'C20-B6': "PSTH bin index computed as `int((t - t_start)/width)` without re-checking against the reported edges: a spike next to an interior edge lands in the neighbouring bin",
}


def main():
    sd = os.path.join(VERIF, 'seeded')
    print("| id | change and what it needs to manifest | repo tests | caught by |")
    print("|---|---|---|---|")
    for sid in sorted(os.listdir(sd), key=lambda s: (s.split('-')[1][1:] or '1', s)):
        if not os.path.isdir(os.path.join(sd, sid)):
            continue
        mp = os.path.join(sd, sid, 'meta.json')
        if not os.path.exists(mp):
            continue
        m = json.load(open(mp))
        cb = m.get('caught_by') or {}
        txt = '; '.join('%s (%s)' % (p, ', '.join(o.split('.', 1)[1] for o in os_)) for p, os_ in sorted(cb.items()))
        print("| `%s` | %s | %s | %s |" % (sid, DESC.get(sid, '?'), 'pass' if m.get('tests_pass_with_patch', True) else 'FAIL', txt or '-'))


if __name__ == '__main__':
    main()
