#!/venv/bin/python
"""Determinism self-test on a large sample (not a registered command): for every
property and several VERIF_SEED values, run the batch at two worker counts and two
PYTHONHASHSEED values, dump the digest of EVERY run, and diff them; additionally a
single fresh interpreter recomputes a spread of runs one by one.  Any difference
means some source of nondeterminism is not behind a seam.

  selftest/determinism.py [runs-per-batch]
"""
import json
import os
import subprocess
import sys
import tempfile

VERIF = os.path.dirname(os.path.dirname(os.path.abspath(__file__)))
PROPS = ['C05', 'C07', 'C09', 'C11', 'C12', 'C13', 'C14', 'C18', 'C19', 'C20']


def batch(prop, seed, jobs, hashseed, runs, path):
    env = dict(os.environ, VERIF_SEED=str(seed), PYTHONHASHSEED=str(hashseed), VERIF_DUMP_DIGESTS=path,
               VERIF_EVIDENCE_DIR=os.path.join(os.path.dirname(path), 'ev'),
               VERIF_REPLAY_DIR=os.path.join(os.path.dirname(path), 'rp'))
    p = subprocess.run(['/venv/bin/python', os.path.join(VERIF, 'check.py'), 'run', prop, '--runs', str(runs),
                        '--jobs', str(jobs)], capture_output=True, text=True, env=env)
    if p.returncode != 0:
        print(p.stdout[-600:], p.stderr[-600:])
        raise SystemExit("check failed during determinism self-test: %s rc=%d" % (prop, p.returncode))
    return json.load(open(path))


def main():
    runs = int(sys.argv[1]) if len(sys.argv) > 1 else 2000
    tmp = tempfile.mkdtemp(prefix='det-')
    total = 0
    bad = 0
    import shutil
    try:
        for prop in PROPS:
            for seed in (0, 11, 12345):
                a = batch(prop, seed, 16, 0, runs, os.path.join(tmp, 'a.json'))
                b = batch(prop, seed, 3, 31337, runs, os.path.join(tmp, 'b.json'))
                idx = list(range(0, runs, max(1, runs // 64)))
                env = dict(os.environ, VERIF_SEED=str(seed), PYTHONHASHSEED='777')
                p = subprocess.run(['/venv/bin/python', os.path.join(VERIF, 'check.py'), 'digests', prop,
                                    '--indices', ','.join(map(str, idx))], capture_output=True, text=True, env=env)
                c = json.loads(p.stdout.strip().splitlines()[-1])
                diff = [k for k in a if a[k] != b.get(k)] + [k for k in c if c[k] != a.get(k)]
                total += len(a) + len(c)
                bad += len(diff)
                print("%s seed=%-5d runs=%d: 16 workers/hashseed 0 vs 3 workers/hashseed 31337 vs single process/hashseed 777: %s" % (
                    prop, seed, len(a), "identical" if not diff else "DIFFER at %s" % diff[:5]))
                sys.stdout.flush()
    finally:
        shutil.rmtree(tmp, ignore_errors=True)
    print("digests compared: %d, differing: %d" % (total, bad))
    return 1 if bad else 0


if __name__ == '__main__':
    sys.exit(main())
