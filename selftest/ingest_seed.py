#!/venv/bin/python
"""Development aid: confirm a sub-agent's seeded change (patch applies to /repo HEAD in a
scratch worktree, repository tests still pass, demo fails with it and passes without it)
and, if all holds, keep it under /verif/seeded/<id>/ with meta.json.

  selftest/ingest_seed.py /tmp/seed/out/C19/A C19 [id]
"""
import json
import os
import shutil
import subprocess
import sys

VERIF = os.path.dirname(os.path.dirname(os.path.abspath(__file__)))


def sh(*a, **kw):
    return subprocess.run(a, capture_output=True, text=True, **kw)


def main():
    src, prop = sys.argv[1], sys.argv[2]
    sid = sys.argv[3] if len(sys.argv) > 3 else "%s-%s" % (prop, os.path.basename(src.rstrip('/')))
    wt = '/tmp/scratch/ingest-tree'
    sh('git', '-C', '/repo', 'worktree', 'remove', '--force', wt)
    shutil.rmtree(wt, ignore_errors=True)
    r = sh('git', '-C', '/repo', 'worktree', 'add', '--detach', wt, 'HEAD')
    assert r.returncode == 0, r.stderr
    ran = []
    try:
        env = dict(os.environ, PYTHONPATH=wt)
        demo = os.path.join(src, 'demo.py')
        patch = os.path.join(src, 'patch.diff')
        c = sh('/venv/bin/python', demo, env=env, cwd=wt)
        ran.append("clean tree: PYTHONPATH=<tree> /venv/bin/python demo.py -> exit %d" % c.returncode)
        clean_ok = c.returncode == 0
        a = sh('git', '-C', wt, 'apply', patch)
        if a.returncode:
            print(sid, "PATCH DOES NOT APPLY:", a.stderr[:300])
            return 1
        ran.append("git apply patch.diff -> ok")
        t = sh('/venv/bin/python', '-m', 'pytest', '-q', '-p', 'no:cacheprovider', '--deselect',
               'test/numeric/test_regression_random_spikes.py::test_regression_random', cwd=wt, env=env)
        tail = (t.stdout.strip().splitlines() or ['?'])[-1]
        ran.append("patched tree: pytest (baseline selection) -> %s" % tail)
        tests_ok = t.returncode == 0
        d = sh('/venv/bin/python', demo, env=env, cwd=wt)
        ran.append("patched tree: demo.py -> exit %d" % d.returncode)
        demo_fails = d.returncode != 0
        print(sid, "clean demo ok:", clean_ok, "| tests pass with patch:", tests_ok, "| demo fails with patch:", demo_fails)
        if not (clean_ok and tests_ok and demo_fails):
            print((d.stdout + d.stderr)[-400:])
            return 1
        dst = os.path.join(VERIF, 'seeded', sid)
        os.makedirs(dst, exist_ok=True)
        for f in ('patch.diff', 'demo.py', 'notes.md'):
            if os.path.exists(os.path.join(src, f)):
                shutil.copy(os.path.join(src, f), os.path.join(dst, f))
        notes = open(os.path.join(src, 'notes.md')).read() if os.path.exists(os.path.join(src, 'notes.md')) else ''
        meta = {'id': sid, 'property': prop, 'origin': 'sub-agent given only the property text and a scratch worktree',
                'base_commit': sh('git', '-C', '/repo', 'rev-parse', '--short', 'HEAD').stdout.strip(),
                'needs_to_manifest': notes.strip()[:1500], 'confirmed_by_running': ran, 'caught_by': None}
        json.dump(meta, open(os.path.join(dst, 'meta.json'), 'w'), indent=1)
        return 0
    finally:
        sh('git', '-C', '/repo', 'worktree', 'remove', '--force', wt)
        shutil.rmtree(wt, ignore_errors=True)


if __name__ == '__main__':
    sys.exit(main())
