#!/venv/bin/python
"""Sensitivity self-test (not a registered command): apply realistic mutations to a
scratch worktree of /repo (outside /repo and /verif), confirm the repository's own
tests still pass there, run the quick checks with VERIF_REPO pointing at the scratch
tree and report which check catches which mutation.  Also applies the patches kept
under /verif/seeded/<id>/patch.diff.  The scratch tree is removed afterwards.

  selftest/mutants.py [--expected-only] [name ...]   run the named mutants / seeded ids (default: all)
"""
import json
import os
import shutil
import subprocess
import sys
import time

VERIF = os.path.dirname(os.path.dirname(os.path.abspath(__file__)))
ALL_PROPS = ['C05', 'C07', 'C09', 'C11', 'C12', 'C13', 'C14', 'C18', 'C19', 'C20']

# (name, file, old, new, properties expected to catch it)
MUTANTS = [
    ('pyx-sync-tie-le', 'pyspike/cython/cython_profiles.pyx',
     "            if j > -1 and spikes1[i]-spikes2[j] < tau:\n                # coincidence between the current spike and the previous spike\n                # both get marked with 1\n                c[n] = 1",
     "            if j > -1 and spikes1[i]-spikes2[j] <= tau:\n                # coincidence between the current spike and the previous spike\n                # both get marked with 1\n                c[n] = 1",
     ['C12']),
    ('pyx-isi-distance-drop-end-correction', 'pyspike/cython/cython_distances.pyx',
     "                    nu2 = fmax(t_end-s2[index2], nu2) if N2 > 1 \\\n                          else t_end-s2[index2]\n            else: # s1[index1+1] == s2[index2+1]",
     "                    nu2 = t_end-s2[index2]\n            else: # s1[index1+1] == s2[index2+1]",
     ['C12', 'C05']),
    ('pwc-ctor-alias', 'pyspike/PieceWiseConstFunc.py',
     "        self.x = np.array(x)\n        self.y = np.array(y)",
     "        self.x = np.asarray(x)\n        self.y = np.asarray(y)",
     ['C09']),
    ('disc-ctor-alias', 'pyspike/DiscreteFunc.py',
     "        self.mp = np.array(multiplicity)",
     "        self.mp = np.asarray(multiplicity)",
     ['C11']),
    ('py-add-pwc-tail', 'pyspike/cython/python_backend.py',
     "        y_new[index+1:index+1+len(y2)-index2-1] = y2[index2+1:] + y1[-1]",
     "        y_new[index+1:index+1+len(y2)-index2-1] = y2[index2+1:] + y1[index1]",
     []),  # equivalent mutant (index1 == len(y1)-1 there): nothing may fire
    ('py-add-pwl-tail', 'pyspike/cython/python_backend.py',
     "        y2_new[index:index+len(y22)-index2-1] = y22[index2:-1] + y",
     "        y2_new[index:index+len(y22)-index2-1] = y22[index2:-1]",
     ['C09', 'C12']),
    ('py-add-disc-mp', 'pyspike/cython/python_backend.py',
     "            mp_new[index] = mp1[index1] + mp2[index2]",
     "            mp_new[index] = mp1[index1]",
     ['C11', 'C12']),
    ('save-swallow-oserror', 'pyspike/spikes.py',
     "    with open(file_name, 'w') as spike_file:\n        for st in spike_trains:\n            s = separator.join(map(format_str.format, st.spikes))\n            spike_file.write(s+'\\n')",
     "    try:\n        with open(file_name, 'w') as spike_file:\n            for st in spike_trains:\n                s = separator.join(map(format_str.format, st.spikes))\n                spike_file.write(s+'\\n')\n    except OSError:\n        pass",
     ['C19']),
    ('load-blank-line-rule', 'pyspike/spikes.py',
     "                if len(line) > 1:",
     "                if len(line) > 0:",
     ['C19']),
    ('merge-unique', 'pyspike/spikes.py',
     "    merged_spikes.sort()",
     "    merged_spikes = np.unique(merged_spikes)",
     ['C20']),
    ('psth-drop-end-spike', 'pyspike/psth.py',
     "    vals, edges = np.histogram(combined_spike_train, bins, density=False)",
     "    vals, edges = np.histogram(combined_spike_train[combined_spike_train < bins[-1]], bins, density=False)",
     ['C20']),
    ('poisson-unsorted-append', 'pyspike/spikes.py',
     "    spikes = T_start + np.cumsum(intervals)\n    spikes = spikes[spikes < T_end]",
     "    spikes = T_start + np.cumsum(intervals)\n    spikes = spikes[spikes < T_end]\n    if len(spikes) > N:\n        spikes = np.append(spikes[N:], spikes[:N])",
     ['C20']),
    ('matrix-position-vs-index', 'pyspike/generic.py',
     "        d = dist_function(spike_trains[indices[i]], spike_trains[indices[j]],",
     "        d = dist_function(spike_trains[i], spike_trains[indices[j]],",
     ['C14']),
    ('distance-multi-no-reconcile', 'pyspike/generic.py',
     "    if kwargs.get('Reconcile', True):\n        spike_trains = reconcile_spike_trains(spike_trains)\n        kwargs['Reconcile'] = False\n\n    MRTS, RI = resolve_keywords(**kwargs)\n    if isinstance(MRTS, str):\n        kwargs['MRTS'] = default_thresh(spike_trains)\n    \n    if indices is None:",
     "    MRTS, RI = resolve_keywords(**kwargs)\n    if isinstance(MRTS, str):\n        kwargs['MRTS'] = default_thresh(spike_trains)\n    \n    if indices is None:",
     ['C13']),
    ('ctor-sorts-callers-array', 'pyspike/SpikeTrain.py',
     "            self.spikes = np.sort(np.array(spike_times, dtype=float))",
     "            if isinstance(spike_times, np.ndarray):\n                spike_times.sort()\n            self.spikes = np.sort(np.array(spike_times, dtype=float))",
     ['C13']),
    ('reconcile-drops-edge-spikes', 'pyspike/spikes.py',
     "        s.spikes = [t for t in s.spikes if t > tStart-Eps and t < tEnd+Eps]",
     "        s.spikes = [t for t in s.spikes if t > tStart and t < tEnd+Eps]",
     ['C13']),
    ('sync-multi-empty-guard', 'pyspike/spike_sync.py',
     "    if mp == 0.0:\n        return 1.0\n    else:\n        return coincidence/mp",
     "    if m == 0.0:\n        return 1.0\n    else:\n        return coincidence/mp",
     ['C05', 'C18']),
    ('isi-fallback-wrong-routine', 'pyspike/spike_sync.py',
     "        from .cython.python_backend import coincidence_python \\\n            as coincidence_profile_impl",
     "        from .cython.python_backend import coincidence_python \\\n            as coincidence_profile_impl\n        _orig_impl = coincidence_profile_impl\n        coincidence_profile_impl = lambda s1, s2, a, b, mt, m: _orig_impl(s1, s2, a, b, 0.0, m)",
     ['C12']),
    ('pyx-order-sign', 'pyspike/cython/cython_directionality.pyx',
     "                # mark with +1\n                d += 2",
     "                # mark with +1\n                d += 1",
     ['C12', 'C05']),
    # ---- liveness: the "append more" batch size can become 0, the loop then never ends (slow: every
    #      hanging run costs the 60 s bound)
    ('poisson-append-zero-batch', 'pyspike/spikes.py',
     "    N_append = max(1, int(0.1 * rate * (T_end-T_start)))",
     "    N_append = int(0.1 * rate * (T_end-T_start))",
     ['C20']),
    # ---- sub-clauses no seeded change happened to touch
    ('disc-smoothing-fraction', 'pyspike/DiscreteFunc.py',
     "                        y += self.y[j] * (expected_mp - mp_l)/self.mp[j]",
     "                        y += self.y[j] * (expected_mp - mp_l - 1)/self.mp[j]",
     ['C11']),
    ('disc-avrg-empty-convention', 'pyspike/DiscreteFunc.py',
     "            if mp > 0:\n                return val/mp\n            else:\n                return 1.0",
     "            if mp >= 0:\n                return val/mp\n            else:\n                return 1.0",
     ['C11']),
    ('save-precision-capped', 'pyspike/spikes.py',
     '    format_str = "{0:.%de}" % precision',
     '    format_str = "{0:.%de}" % min(precision, 15)',
     ['C19']),
    ('scalar-edge-truncated', 'pyspike/SpikeTrain.py',
     "            self.t_start = 0.0\n            self.t_end = float(edges)",
     "            self.t_start = 0.0\n            self.t_end = float(int(edges))",
     ['C19']),
    ('poisson-edges-from-spikes', 'pyspike/spikes.py',
     "    spikes = spikes[spikes < T_end]\n    return SpikeTrain(spikes, interval)",
     "    spikes = spikes[spikes < T_end]\n    return SpikeTrain(spikes, [T_start, spikes[-1]] if len(spikes) else interval)",
     ['C20']),
    ('pwc-avrg-multi-interval-length', 'pyspike/PieceWiseConstFunc.py',
     "                a += self.integral(ival)\n                int_length += ival[1] - ival[0]",
     "                a += self.integral(ival)\n                int_length = ival[1] - ival[0]",
     ['C05']),
    ('dir-self-tie-sign', 'pyspike/cython/directionality_python_backend.py',
     "            # advance in both spike trains\n            j += 1\n            i += 1\n            d1[i] = 0\n            d2[j] = 0",
     "            # advance in both spike trains\n            j += 1\n            i += 1\n            d1[i] = 1\n            d2[j] = 0",
     ['C07', 'C12']),
    ('reconcile-not-idempotent', 'pyspike/spikes.py',
     "    return [SpikeTrain(s.spikes, [tStart, tEnd], is_sorted=True) for s in spike_trains]",
     "    return [SpikeTrain(s.spikes, [tStart, tEnd + (1e-3 if len(spike_trains) > 2 else 0.0)], is_sorted=True) for s in spike_trains]",
     ['C13']),
]


def sh(*a, **kw):
    return subprocess.run(a, capture_output=True, text=True, **kw)


def edit(path, old, new):
    raw = open(path, newline='').read()
    if '\r\n' in raw:
        old = old.replace('\n', '\r\n')
        new = new.replace('\n', '\r\n')
    if raw.count(old) != 1:
        raise SystemExit("mutation site not found exactly once in %s (%d)" % (path, raw.count(old)))
    open(path, 'w', newline='').write(raw.replace(old, new))


def fresh_tree(wt):
    sh('git', '-C', '/repo', 'worktree', 'remove', '--force', wt)
    shutil.rmtree(wt, ignore_errors=True)
    r = sh('git', '-C', '/repo', 'worktree', 'add', '--detach', wt, 'HEAD')
    if r.returncode:
        raise SystemExit(r.stderr)


def drop_tree(wt):
    sh('git', '-C', '/repo', 'worktree', 'remove', '--force', wt)
    shutil.rmtree(wt, ignore_errors=True)


def run_tests(wt):
    p = sh('/venv/bin/python', '-m', 'pytest', '-q', '-p', 'no:cacheprovider', '-x', '--deselect',
           'test/numeric/test_regression_random_spikes.py::test_regression_random', cwd=wt,
           env=dict(os.environ, PYTHONPATH=wt))
    tail = p.stdout.strip().splitlines()[-1] if p.stdout.strip() else p.stderr[-200:]
    return p.returncode == 0, tail


def run_checks(wt, props, runs=None):
    res = {}
    for prop in props:
        cmd = ['/venv/bin/python', os.path.join(VERIF, 'check.py'), 'run', prop, '--tier', 'quick']
        if runs:
            cmd += ['--runs', str(runs)]
        p = sh(*cmd, env=dict(os.environ, VERIF_REPO=wt, VERIF_EVIDENCE_DIR='/tmp/scratch/mutant-evidence',
                              VERIF_REPLAY_DIR='/tmp/scratch/mutant-replays'))
        viol = [l for l in p.stdout.splitlines() if l.startswith('violation oracle=')]
        res[prop] = (p.returncode, [v.split()[1] for v in viol])
    return res


def main():
    want = [a for a in sys.argv[1:] if not a.startswith('--')]
    expected_only = '--expected-only' in sys.argv[1:]     # faster regression pass: only the checks expected to catch
    wt = '/tmp/scratch/mutant-tree'
    rows = []
    items = []
    for name, fn, old, new, exp in MUTANTS:
        if old is None:
            continue
        items.append((name, ('edit', fn, old, new), exp))
    sd = os.path.join(VERIF, 'seeded')
    for sid in sorted(os.listdir(sd)) if os.path.isdir(sd) else []:
        meta = os.path.join(sd, sid, 'meta.json')
        if os.path.exists(meta):
            m = json.load(open(meta))
            items.append(('seeded/' + sid, ('patch', os.path.join(sd, sid, 'patch.diff')),
                          m['expected_checks'] if 'expected_checks' in m else [m['property']]))
    try:
        for name, how, exp in items:
            if want and name not in want and name.split('/')[-1] not in want:
                continue
            fresh_tree(wt)
            if how[0] == 'edit':
                edit(os.path.join(wt, how[1]), how[2], how[3])
            else:
                r = sh('git', '-C', wt, 'apply', how[1])
                if r.returncode:
                    print(name, 'PATCH DOES NOT APPLY', r.stderr[:200])
                    continue
            ok, tail = run_tests(wt)
            t = time.time()
            res = run_checks(wt, exp if (expected_only and exp) else ALL_PROPS)
            for p in ALL_PROPS:
                res.setdefault(p, (0, []))
            caught = [p for p in ALL_PROPS if res[p][0] == 1]
            errs = [p for p in ALL_PROPS if res[p][0] not in (0, 1)]
            verdict = 'CAUGHT' if set(exp) & set(caught) else ('SILENT-AS-EXPECTED' if not exp and not caught else 'MISSED')
            print("%-44s tests:%s  expected:%s caught:%s errors:%s  %s  (%.0fs)" % (
                name, 'pass' if ok else 'FAIL(' + tail[:40] + ')', ','.join(exp) or '-', ','.join(caught) or '-',
                ','.join(errs) or '-', verdict, time.time() - t))
            for p in caught:
                print("      %s: %s" % (p, ' '.join(sorted(set(res[p][1])))))
            sys.stdout.flush()
            rows.append((name, ok, exp, caught, verdict))
            if name.startswith('seeded/') and not expected_only:
                mp = os.path.join(sd, name.split('/', 1)[1], 'meta.json')
                m = json.load(open(mp))
                m['caught_by'] = dict((p, sorted(set(o.replace('oracle=', '') for o in res[p][1]))) for p in caught)
                m['tests_pass_with_patch'] = ok
                m['checks_run'] = ("all ten quick checks (check.py run <id> --tier quick) with VERIF_REPO=<scratch worktree "
                                   "with patch.diff applied>, via selftest/mutants.py; the unpatched tree is silent")
                json.dump(m, open(mp, 'w'), indent=1)
    finally:
        drop_tree(wt)
        shutil.rmtree('/tmp/scratch/mutant-evidence', ignore_errors=True)
        shutil.rmtree('/tmp/scratch/mutant-replays', ignore_errors=True)
    missed = [r for r in rows if r[4] == 'MISSED']
    print("mutants run: %d, missed: %d" % (len(rows), len(missed)))
    return 1 if missed else 0


if __name__ == '__main__':
    sys.exit(main())
